#!/bin/bash
# runs the quick check of every property claimed in MANIFEST.json; prints one summary line per property
cd /verif
for p in $(python3 -c "import json;print(' '.join(c['property_id'] for c in json.load(open('MANIFEST.json'))['checks']))"); do
  s=$(date +%s); out=$(./check $p quick 2>&1); code=$?; e=$(date +%s)
  echo "$p exit=$code $((e-s))s $(echo "$out" | tail -1)"
  echo "$out" | grep -E "^VIOLATION|^KNOWN" | head -5
done
