#!/bin/bash
# usage: mkseedtree.sh <ID>   creates a scratch worktree of /repo at /tmp/seed/<ID> without the contract sidecars
set -eu
id=$1
git -C /repo worktree add --detach /tmp/seed/$id HEAD >/dev/null 2>&1
find /tmp/seed/$id -name 'zz_contracts_verif.go' -delete
mkdir -p /tmp/seed/$id/SEED
echo /tmp/seed/$id
