#!/usr/bin/env python3
# usage: bounded_parse.py <PROP> <known_findings> <out.txt>  -- turns BOUNDED-FAIL lines into VIOLATION / KNOWN-FINDING lines
import sys,re,json,os
prop,known,out=sys.argv[1:4]
kf=[l for l in open(known)] if os.path.exists(known) else []
seen={}
for line in open(out):
    m=re.search(r'BOUNDED-FAIL lens=\[([0-9,]*)\] prefill=(\d): (.*)',line.strip())
    if not m: continue
    lens,pf,msg=m.groups()
    dist=''
    if ' | dist=[' in msg:
        msg,dist=msg.split(' | dist=[',1); dist=dist.rstrip(']')
    cls=re.sub(r'0x[0-9a-f]+|[0-9]+','N',msg)[:70]
    if cls in seen: continue
    seen[cls]=1
    kind='hdr' if dist else ('clc' if ('code length code' in msg or 'GenerateForHeader' in msg or 'clcOK' in msg) else 'dist')
    name='bounded_%stab_'%kind+re.sub(r'[^A-Za-z]+','_',cls)[:50]
    path='%s/%s/%s.json'%(os.environ.get('VERIF_REPLAY_ROOT','/verif/replays'),prop,name)
    os.makedirs(os.path.dirname(path),exist_ok=True)
    json.dump({"property":prop,"obligation":"bounded[%stab]: "%kind+cls,"failing_input":({"literal_length_code_lengths":lens,"distance_code_lengths":dist,"multi_symbol_mode":int(pf)} if kind=="hdr" else {("code_length_code_lengths" if kind=="clc" else "distance_code_lengths"):lens,"prefill":int(pf)}),"message":msg,
      "replay_cmd":"VERIF_BOUNDED_KIND=%s VERIF_BOUNDED_LENS=%s VERIF_BOUNDED_DIST=%s VERIF_BOUNDED_PREFILL=%s /verif/tools/bounded_replay.sh"%(kind,lens,dist,pf)},open(path,'w'),indent=1)
    isknown=any(l.startswith('finding:') and ('property=%s '%prop) in l and cls in l for l in kf)
    if isknown: print("KNOWN-FINDING: property=%s bounded[disttab] %s"%(prop,cls))
    else: print("VIOLATION property=%s replay=%s"%(prop,path))
