#!/usr/bin/env python3
# usage: bounded_parse.py <PROP> <known_findings> <out.txt>
# Turns the BOUNDED-FAIL lines of a bounded harness run into VIOLATION / KNOWN-FINDING lines, one per kind of
# failure, and writes a replay file with the failing input (and, where a replay test exists, the command that
# re-runs exactly that input against the real code).
import sys, re, json, os

prop, known, out = sys.argv[1:4]
kf = [l for l in open(known)] if os.path.exists(known) else []
root = os.environ.get('VERIF_REPLAY_ROOT', '/verif/replays')
seen = {}


def kind_of(msg, dist):
    if 'byteCopy' in msg:
        return 'bytecopy'
    if 'lz77 matcher' in msg:
        return 'lz77'
    if 'split delivery' in msg:
        return 'split'
    if any(x in msg for x in ('header written', 'read back', 'writeTo', 'BFINAL is', 'code length code is neither')):
        return 'whdr'
    if ('Generate' in msg and 'GenerateForHeader' not in msg) or 'Kraft' in msg or ('gets length' in msg):
        return 'huff'
    if dist:
        return 'hdr'
    if 'code length code' in msg or 'GenerateForHeader' in msg or 'clcOK' in msg:
        return 'clc'
    return 'dist'


for line in open(out):
    m = re.search(r'BOUNDED-FAIL lens=\[([0-9,]*)\] prefill=(\d+): (.*)', line.strip())
    if not m:
        continue
    lens, pf, msg = m.groups()
    dist = ''
    if ' | dist=[' in msg:
        msg, dist = msg.split(' | dist=[', 1)
        dist = dist.rstrip(']')
    cls = re.sub(r'0x[0-9a-f]+|[0-9]+', 'N', msg)[:70]
    if cls in seen:
        continue
    seen[cls] = 1
    kind = kind_of(msg, dist)
    name = 'bounded_%s_' % kind + re.sub(r'[^A-Za-z]+', '_', cls)[:50]
    path = '%s/%s/%s.json' % (root, prop, name)
    os.makedirs(os.path.dirname(path), exist_ok=True)
    if kind == 'hdr':
        inp = {"literal_length_code_lengths": lens, "distance_code_lengths": dist, "multi_symbol_mode": int(pf)}
    elif kind == 'whdr':
        inp = {"literal_length_code_lengths": lens, "distance_code_lengths": dist, "start_bit_offset_index": int(pf)}
    elif kind == 'clc':
        inp = {"code_length_code_lengths": lens, "prefill": int(pf)}
    elif kind == 'huff':
        inp = {"histogram": lens, "length_limit": int(pf)}
    elif kind == 'lz77':
        inp = {"input_number_level_window_tokenlimit": lens, "input_shape": int(pf)}
    elif kind == 'bytecopy':
        inp = {"curr_dist_length": lens}
    elif kind == 'split':
        inp = {"literal_length_code_lengths": lens, "distance_code_lengths": dist, "first_piece_ends_at_byte": int(pf)}
    else:
        inp = {"distance_code_lengths": lens, "prefill": int(pf)}
    rep = {"property": prop, "obligation": "bounded[%s]: %s" % (kind, cls), "failing_input": inp, "message": msg}
    if kind in ('dist', 'clc', 'hdr', 'huff'):
        rep["replay_cmd"] = "VERIF_BOUNDED_KIND=%s VERIF_BOUNDED_LENS=%s VERIF_BOUNDED_DIST=%s VERIF_BOUNDED_PREFILL=%s /verif/tools/bounded_replay.sh" % (kind, lens, dist, pf)
    else:
        rep["replay_note"] = "re-run tools/bounded.sh: the harness is deterministic (fixed seed) and reports this input first"
    json.dump(rep, open(path, 'w'), indent=1)
    isknown = any(l.startswith('finding:') and ('property=%s ' % prop) in l and cls in l for l in kf)
    if isknown:
        print("KNOWN-FINDING: property=%s bounded[%s] %s" % (prop, kind, cls))
    else:
        print("VIOLATION property=%s replay=%s" % (prop, path))
