#!/bin/bash
# replays one recorded input of the bounded distance-table check against the real code: VERIF_BOUNDED_LENS, VERIF_BOUNDED_PREFILL
export GOFLAGS=-mod=mod GOPROXY=off GOSUMDB=off GOTOOLCHAIN=local
repo=${VERIF_REPO:-/repo}
work=$(mktemp -d /tmp/gocv-bounded.XXXXXX); trap 'rm -rf "$work"' EXIT
printf '{"Replace":{"%s/compress/flate/zz_bounded_disttab_test.go":"/verif/bounded/disttab_test.go","%s/compress/flate/zz_bounded_clctab_test.go":"/verif/bounded/clctab_test.go","%s/compress/flate/zz_bounded_littab_test.go":"/verif/bounded/littab_test.go","%s/compress/flate/internal/huffman/zz_bounded_huffman_test.go":"/verif/bounded/huffman_test.go"}}' "$repo" "$repo" "$repo" "$repo" > $work/overlay.json
run='TestBoundedDistTableReplay$'; [ "${VERIF_BOUNDED_KIND:-dist}" = clc ] && run='TestBoundedClcTableReplay$'; [ "${VERIF_BOUNDED_KIND:-dist}" = hdr ] && run='TestBoundedHeaderTablesReplay$'
pkg=./compress/flate; [ "${VERIF_BOUNDED_KIND:-dist}" = huff ] && { run='TestBoundedHuffmanGenerateReplay$'; pkg=./compress/flate/internal/huffman; }
cd $repo && go test -overlay $work/overlay.json -vet=off -count=1 -timeout 60s -run "$run" -v $pkg
