#!/bin/bash
# usage: recheck_seeds.sh [name-prefix]   re-runs the checks against every filed seeded change and updates meta.json
# (detected, detected_by). A seed counts as detected when the check of its own property, or of a property listed
# for it in seeded/also_try.txt, exits 1 with a VIOLATION line on the changed tree.
cd /verif
for d in seeded/*/; do
  name=$(basename $d); [ -n "${1:-}" ] && [[ "$name" != $1* ]] && continue
  prop=$(python3 -c "import json;print(json.load(open('$d/meta.json'))['property'])")
  also=$(grep "^$name " seeded/also_try.txt 2>/dev/null | cut -d' ' -f2-)
  det=""; by=""
  for p in $prop $also; do
    python3 -c "import json,sys;sys.exit(0 if any(c['property_id']=='$p' for c in json.load(open('MANIFEST.json'))['checks']) else 1)" || continue
    out=$(selftest/run_mutant.sh $d/patch.diff $p quick 2>&1); code=$?
    if [ $code -eq 1 ]; then det=$p; by=$(echo "$out" | grep '^VIOLATION' | head -2 | sed 's/.*replay=//; s#.*/##; s/\.json.*//' | tr '\n' ';'); break; fi
  done
  python3 - "$d/meta.json" "$det" "$by" <<'PY'
import json,sys
p,det,by=sys.argv[1:4]
m=json.load(open(p))
m['detected']=bool(det)
m['detected_by_check']=det or None
m['failing_obligations']=[x for x in by.split(';') if x]
m.pop('note',None)
if not det: m['note']='no registered check reports this change'
json.dump(m,open(p,'w'),indent=1)
PY
  echo "$name: detected=${det:-NO} $by"
done
