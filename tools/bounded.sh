#!/bin/bash
# usage: bounded.sh <PROP> <quick|thorough>
# Bounded stand-in for the table builders the contract verifier keeps as assumed contracts (labelled bounded, never
# counted as proved). Injects /verif/bounded/*_test.go into package compress/flate of /repo with `go test -overlay`
# (nothing is written to the repository), runs it, and turns failures into VIOLATION lines with a replayable input.
set -u
prop=$1; tier=${2:-quick}
export GOFLAGS=-mod=mod GOPROXY=off GOSUMDB=off GOTOOLCHAIN=local
repo=${VERIF_REPO:-/repo}
work=$(mktemp -d /tmp/gocv-bounded.XXXXXX); trap 'rm -rf "$work"' EXIT
{
  echo '{"Replace":{'
  first=1
  for f in /verif/bounded/*_test.go; do
    [ $first -eq 1 ] || echo ','
    first=0
    dir=compress/flate; [ "$(basename $f)" = huffman_test.go ] && dir=compress/flate/internal/huffman; [ "$(basename $f)" = hdrwrite_test.go ] && dir=compress/flate/internal/deflate; [ "$(basename $f)" = lz77_test.go ] && dir=compress/flate/internal/deflate
    printf '"%s/%s/zz_bounded_%s":"%s"' "$repo" "$dir" "$(basename $f)" "$f"
  done
  echo '}}'
} > $work/overlay.json
if [ "$tier" = thorough ]; then
  export VERIF_BOUNDED_COMPLETE_SYMS=30 VERIF_BOUNDED_INCOMPLETE_SYMS=6 VERIF_BOUNDED_RANDOM=3000000 VERIF_BOUNDED_HEADERS=150000 VERIF_BOUNDED_PATTERNS=600 VERIF_BOUNDED_HISTOGRAMS=2000000 VERIF_BOUNDED_BIGCOUNTS=1 VERIF_BOUNDED_WHEADERS=150000 VERIF_BOUNDED_SPLIT_BLOCKS=60000 VERIF_BOUNDED_LZ77=40000
  to=1500s
else
  export VERIF_BOUNDED_COMPLETE_SYMS=${VERIF_BOUNDED_COMPLETE_SYMS:-30} VERIF_BOUNDED_INCOMPLETE_SYMS=${VERIF_BOUNDED_INCOMPLETE_SYMS:-4} VERIF_BOUNDED_RANDOM=${VERIF_BOUNDED_RANDOM:-100000} VERIF_BOUNDED_HEADERS=${VERIF_BOUNDED_HEADERS:-10000} VERIF_BOUNDED_PATTERNS=${VERIF_BOUNDED_PATTERNS:-400} VERIF_BOUNDED_HISTOGRAMS=${VERIF_BOUNDED_HISTOGRAMS:-60000} VERIF_BOUNDED_BIGCOUNTS=1 VERIF_BOUNDED_WHEADERS=${VERIF_BOUNDED_WHEADERS:-8000} VERIF_BOUNDED_SPLIT_BLOCKS=${VERIF_BOUNDED_SPLIT_BLOCKS:-1500} VERIF_BOUNDED_LZ77=${VERIF_BOUNDED_LZ77:-1500}
  to=300s
fi
out=$work/out.txt
s=$(date +%s.%N)
case "$prop" in
  C01|C10) pkg="./compress/flate/internal/huffman ./compress/flate/internal/deflate"; run='TestBounded(HuffmanGenerate|HeaderWriter|LZ77)$'; group=writer ;;
  C04)     pkg=./compress/flate; run='TestBounded(SplitDelivery|TruncatedDelivery)$'; group=split ;;
  *)       pkg=./compress/flate; run='TestBounded(DistTable|ClcTable|HeaderTables|ByteCopy|SplitDelivery)$'; group=tables ;;
esac
(cd $repo && go test -overlay $work/overlay.json -vet=off -count=1 -timeout $to -run "$run" -v $pkg) > $out 2>&1
code=$?
if [ "$group" = writer ]; then
  # the match finder harness once more over the pure-Go matcher (the default build of an x86-64 host dispatches to the assembly matchers)
  (cd $repo && go test -overlay $work/overlay.json -vet=off -count=1 -timeout $to -tags noasmtest -run 'TestBoundedLZ77$' -v ./compress/flate/internal/deflate) >> $out 2>&1 || code=1
fi
e=$(date +%s.%N)
rroot=${VERIF_REPLAY_ROOT:-/verif/replays}; export VERIF_REPLAY_ROOT=$rroot
mkdir -p $rroot/$prop /verif/evidence
explored=$(grep -o 'BOUNDED explored=[0-9]*' $out | cut -d= -f2 | paste -sd+ | bc)
nfail=$(grep -c 'BOUNDED-FAIL' $out)
status=0
known=/verif/known_findings.txt
nfail=$(grep -c 'BOUNDED-FAIL lens=' $out)
: > $work/viol.txt
if [ "$nfail" -gt 0 ]; then
  # one VIOLATION per distinct message class (first input of each), with a replay command
  python3 /verif/tools/bounded_parse.py "$prop" "$known" "$out" > $work/viol.txt
  cat $work/viol.txt
  grep -q '^VIOLATION' $work/viol.txt && status=1
fi
if [ $code -ne 0 ] && ! grep -q '^VIOLATION\|^KNOWN-FINDING' $work/viol.txt; then
  # build failure, timeout (a hang in the function under test shows up here) or a crash of the harness itself
  r=$rroot/$prop/bounded_${group}_harness.json
  python3 - "$out" "$r" "$prop" <<'PY'
import json,sys
json.dump({"property":sys.argv[3],"obligation":"bounded harness did not run to completion (build failure, crash, or the function under test does not terminate within the time limit)","output":open(sys.argv[1]).read()[-6000:]},open(sys.argv[2],'w'),indent=1)
PY
  echo "VIOLATION property=$prop replay=$r no-failing-input-found"
  status=1
fi
printf 'bounded[%s]: property %s tier %s: explored=%s failures=%s exit=%s %.1fs\n' "$group" "$prop" "$tier" "${explored:-0}" "$nfail" "$status" "$(echo "$e - $s" | bc)"
export VERIF_BOUNDED_GROUP=$group
[ "$repo" = /repo ] && python3 - "$prop" "$tier" "${explored:-0}" "$nfail" "$(echo "$e - $s" | bc)" <<'PY'
# the bounded stand-in reports inside the property's evidence file (coverage.bounded_stand_in), written after gocv's part
import json,sys,os
prop,tier,explored,nfail,wall=sys.argv[1:6]
p='/verif/evidence/%s.json'%prop
try: ev=json.load(open(p))
except Exception: ev={"property_id":prop,"tier":tier,"seed":0,"level":"other","coverage":{},"wall_s":0.0}
ev.setdefault("coverage",{})["bounded_stand_in"]={"label":"bounded (not proof)","group":os.environ.get("VERIF_BOUNDED_GROUP",""),"what":"(group writer: the match finders behind generate - lz77 and, in the default configuration, the assembly matchers - driven like compressBlock drives them with token limits 4..64 and 32767: appended tokens decode to the bytes consumed, distances within the window, every histogram counter moves by the number of appended tokens with that symbol; huffman.Generate + GenerateCode2 on random histograms of 19/30/286 symbols - assumed postcondition, complete prefix-free codes; dynamicHeader.writeTo on random code length vectors - the bits written parse back, with an independent RFC 1951 parser, to the same lengths) (group tables:) genForDists+setCodes on distance code length vectors, GenerateForHeader+setCodes on code length code vectors, and the whole dynamic-header table construction (setupDynamicHeader) on random complete codes in the three multi-symbol modes; real tables compared with canonical decoding and with the contract predicates; variants with incomplete codes parsed over an earlier block's tables against zeroed tables; headers with run-length coded lengths (groups tables and split:) random valid dynamic blocks delivered whole, in two pieces cut at every byte, in three pieces and byte by byte must decode to the standard library's output; (group split also:) truncated final dynamic blocks delivered whole and byte by byte - unexpected EOF twice, both outputs prefixes of the data, equal length (the last is a recorded finding) (bound stated in /verif/bounded/*_test.go)",
 "explored_inputs":int(explored),"failures":int(nfail),"wall_s":float(wall),
 "bound":{"complete_codes_max_symbols":int(os.environ.get("VERIF_BOUNDED_COMPLETE_SYMS","30")),"incomplete_codes_max_symbols":int(os.environ.get("VERIF_BOUNDED_INCOMPLETE_SYMS","4")),"random_vectors":int(os.environ.get("VERIF_BOUNDED_RANDOM","100000")),"random_headers":int(os.environ.get("VERIF_BOUNDED_HEADERS","10000")),"patterns_per_header":int(os.environ.get("VERIF_BOUNDED_PATTERNS","400")),"histograms":int(os.environ.get("VERIF_BOUNDED_HISTOGRAMS","60000")),"written_headers":int(os.environ.get("VERIF_BOUNDED_WHEADERS","8000")),"split_delivery_blocks":int(os.environ.get("VERIF_BOUNDED_SPLIT_BLOCKS","1500")),"match_finder_inputs":int(os.environ.get("VERIF_BOUNDED_LZ77","1500"))}}
ev["wall_s"]=round(float(ev.get("wall_s",0))+float(wall),3)
json.dump(ev,open(p,'w'),indent=1)
PY
exit $status
