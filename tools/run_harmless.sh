#!/bin/bash
# usage: run_harmless.sh   applies each behaviour-preserving patch under /verif/harmless to a scratch copy and runs the
# listed checks: every one must exit 0 (an alarm here is a false alarm)
cd /verif
declare -A props=( [H01]="C01 C19" [H02]="C02 C03" [H03]="C03" [H04]="C09" [H05]="C07 C06" [H06]="C06 C14" [H07]="C03" [H08]="C01" [H09]="C06 C16" [H10]="C19 C16" [H11]="C01" [H12]="C02" [H13]="C11 C15" [H14]="C10" [H15]="C03" [H16]="C07" [H17]="C13" [H18]="C01 C10" [H19]="C01 C18" [H20]="C04" [H21]="C02 C04" [H22]="C09 C14" [H23]="C06" [H24]="C10" [H25]="C03" [H26]="C10" [H27]="C06" [H28]="C19" [H29]="C13" [H30]="C07" [H31]="C13" [H32]="C11" [H33]="C15" [H34]="C06" [H35]="C18" [H36]="C04" [H37]="C06" )
fail=0
for d in harmless/H*/; do
  id=$(basename $d)
  [ -n "${1:-}" ] && [ "$1" != "$id" ] && continue
  for p in ${props[$id]}; do
    scratch=$(mktemp -d /tmp/gocv-harmless.XXXXXX)
    rsync -a --exclude .git /repo/ "$scratch/"
    if ! (cd "$scratch" && patch -p1 -s < /verif/$d/patch.diff); then echo "$id $p: PATCH-FAILED"; rm -rf "$scratch"; continue; fi
    out=$(VERIF_REPO="$scratch" ./check $p quick 2>&1); code=$?
    echo "$id $p: exit=$code $(echo "$out" | grep -c '^VIOLATION') violation lines"
    echo "$out" | grep '^VIOLATION' | sed "s#.*replay=##; s#.*/##" | head -4
    if [ $code -ne 0 ] && [ -f /verif/$d/expected_alarm.txt ]; then echo "$id $p: EXPECTED-ALARM (documented limitation, see $d/expected_alarm.txt)"; code=0; fi
    [ $code -ne 0 ] && fail=1
    rm -rf "$scratch"
  done
done
exit $fail
