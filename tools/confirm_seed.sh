#!/bin/bash
# usage: confirm_seed.sh <inbox-dir> <PROP> <name>  -- confirms a seeded change and files it under /verif/seeded/<name>
set -u
src=$(readlink -f "$1"); prop=$2; name=$3
export GOFLAGS=-mod=mod GOPROXY=off GOSUMDB=off GOTOOLCHAIN=local
meta=$src/meta.json
demo=$(ls $src/*_test.go | head -1)
ddir=$(python3 -c "import json;print(json.load(open('$meta'))['demo_dir'])")
tags=$(python3 -c "import json;print(json.load(open('$meta')).get('tags_needed',''))")
scratch=$(mktemp -d /tmp/seedconf.XXXXXX); trap 'rm -rf "$scratch"' EXIT
rsync -a --exclude .git /repo/ "$scratch/"
res=$scratch/result.txt
cd $scratch
cp $demo $ddir/zz_seed_demo_test.go
tagarg=""; [ -n "$tags" ] && tagarg="-tags $tags"
echo "== demo on unchanged code (must pass)" > $res
go test -vet=off -count=1 $tagarg -run 'TestSeed' ./$ddir >> $res 2>&1; a=$?
rm $ddir/zz_seed_demo_test.go
patch -p1 -s < $src/patch.diff || { echo "PATCH FAILED"; exit 3; }
echo "== existing suite with the change (must pass), default build" >> $res
go test -vet=off -count=1 ./... 2>&1 | grep -v "no test files" >> $res; b=${PIPESTATUS[0]}
echo "== existing suite with the change (must pass), -tags noasmtest" >> $res
go test -vet=off -count=1 -tags noasmtest ./... 2>&1 | grep -v "no test files" >> $res; c=${PIPESTATUS[0]}
cp $demo $ddir/zz_seed_demo_test.go
echo "== demo with the change (must fail)" >> $res
go test -vet=off -count=1 $tagarg -run 'TestSeed' ./$ddir 2>&1 | tail -15 >> $res; d=${PIPESTATUS[0]}
rm $ddir/zz_seed_demo_test.go
echo "== gocv check $prop on the changed tree" >> $res
out=$(VERIF_REPO="$scratch" /verif/check "$prop" quick 2>&1); e=$?
echo "$out" | grep -E "^VIOLATION|^KNOWN|^gocv:|^bounded" | sed "s#$scratch#<tree>#g" | head -12 >> $res
echo "SUMMARY demo_unchanged_exit=$a suite_default_exit=$b suite_noasm_exit=$c demo_changed_exit=$d check_exit=$e" | tee -a $res
if [ $a -eq 0 ] && [ $b -eq 0 ] && [ $c -eq 0 ] && [ $d -ne 0 ]; then
  mkdir -p /verif/seeded/$name; cp $src/patch.diff /verif/seeded/$name/; cp $demo /verif/seeded/$name/$(basename $demo).txt; cp $res /verif/seeded/$name/confirmation.txt
  python3 - <<PY
import json
m=json.load(open('$meta'))
out={"property":"$prop","summary":m.get("summary"),"needs":m.get("needs"),"demo_dir":m.get("demo_dir"),"demo_file":"$(basename $demo).txt (rename to _test.go inside demo_dir)","tags_needed":m.get("tags_needed",""),
 "confirmed_by":"tools/confirm_seed.sh on a scratch copy of /repo: demo passes unchanged, existing suite passes with the change in both configurations, demo fails with the change",
 "check_exit_on_changed_tree":$e,"detected":$e==1,"author":"sub-agent given only the property text and a worktree without the contract files"}
json.dump(out,open('/verif/seeded/$name/meta.json','w'),indent=1)
PY
  echo "FILED /verif/seeded/$name detected=$([ $e -eq 1 ] && echo yes || echo no)"
else
  echo "NOT CONFIRMED"
fi
