package main

import (
	"fmt"
	"go/token"
	"go/types"

	"golang.org/x/tools/go/ssa"
)

func (ex *Exec) ptrEq(a, b *Val) Term {
	// both nil, or same target
	var alts []Term
	alts = append(alts, And(a.IsNil, b.IsNil))
	for _, x := range a.Tg {
		for _, y := range b.Tg {
			if x.Loc.Obj != y.Loc.Obj || regionKey(x.Loc) != regionKey(y.Loc) {
				continue
			}
			conj := []Term{Not(a.IsNil), Not(b.IsNil), x.G, y.G}
			for k := range x.Loc.Steps {
				if x.Loc.Steps[k].IsIdx {
					conj = append(conj, Eq(x.Loc.Steps[k].Idx, y.Loc.Steps[k].Idx))
				}
			}
			alts = append(alts, And(conj...))
		}
	}
	return Or(alts...)
}

func (ex *Exec) ifaceEq(a, b *Val) Term {
	conj := []Term{Eq(a.Tag, b.Tag)}
	for k, x := range a.Cases {
		if y, ok := b.Cases[k]; ok && x.K == KPtr && y.K == KPtr {
			var tagc Term
			if k == "other" {
				tagc = Eq(a.Tag, BVConst(tagOther, 16))
			} else if t := ex.p.lookupTypeKey(k); t != nil {
				tagc = Eq(a.Tag, BVConst(int64(ex.p.typeTag(t)), 16))
			} else {
				continue
			}
			conj = append(conj, Implies(tagc, ex.ptrEq(x, y)))
		}
	}
	return And(conj...)
}

func (ex *Exec) valEq(x, y *Val) (Term, bool) {
	if x.K == KUntyped && y.K == KScalar {
		x = ex.untypedTo(x, y)
	}
	if y.K == KUntyped && x.K == KScalar {
		y = ex.untypedTo(y, x)
	}
	switch {
	case x.K == KScalar && y.K == KScalar && x.T.Sort == y.T.Sort:
		return Eq(x.T, y.T), true
	case x.K == KPtr && y.K == KPtr:
		return ex.ptrEq(x, y), true
	case x.K == KSlice && y.K == KSlice:
		// only comparison with nil is legal Go
		if len(y.Tg) == 0 {
			return x.IsNil, true
		}
		if len(x.Tg) == 0 {
			return y.IsNil, true
		}
		// spec-level equality of slice headers
		return And(Eq(x.Off, y.Off), Eq(x.Len, y.Len), Eq(x.Cap, y.Cap), ex.ptrEq(&Val{K: KPtr, Tg: x.Tg, IsNil: x.IsNil}, &Val{K: KPtr, Tg: y.Tg, IsNil: y.IsNil})), true
	case x.K == KIface && y.K == KIface:
		return ex.ifaceEq(x, y), true
	case x.K == KString && y.K == KString:
		return And(Eq(x.Len, y.Len), Eq(x.T, y.T)), true
	case x.K == KFunc && y.K == KFunc:
		if y.Fn == nil && y.FnVar == "" {
			return x.IsNil, true
		}
		return y.IsNil, true
	case x.K == KStruct && y.K == KStruct && len(x.Fs) == len(y.Fs):
		var cs []Term
		for i := range x.Fs {
			c, ok := ex.valEq(x.Fs[i], y.Fs[i])
			if !ok {
				return False, false
			}
			cs = append(cs, c)
		}
		return And(cs...), true
	case x.K == KArray && y.K == KArray:
		if x.T.Valid() && y.T.Valid() && x.T.Sort == y.T.Sort {
			return Eq(x.T, y.T), true
		}
		if len(x.Fs) == len(y.Fs) && len(x.Fs) > 0 {
			var cs []Term
			for i := range x.Fs {
				c, ok := ex.valEq(x.Fs[i], y.Fs[i])
				if !ok {
					return False, false
				}
				cs = append(cs, c)
			}
			return And(cs...), true
		}
	case x.K == KTuple && y.K == KTuple && len(x.Fs) == len(y.Fs):
		var cs []Term
		for i := range x.Fs {
			c, ok := ex.valEq(x.Fs[i], y.Fs[i])
			if !ok {
				return False, false
			}
			cs = append(cs, c)
		}
		return And(cs...), true
	}
	return False, false
}

func (ex *Exec) untypedTo(u *Val, like *Val) *Val {
	if like.T.Sort.K == SBool {
		return &Val{K: KScalar, Typ: like.Typ, T: BoolConst(u.C.Sign() != 0)}
	}
	return &Val{K: KScalar, Typ: like.Typ, T: BVConstBig(u.C, like.T.Sort.W)}
}

func (ex *Exec) binop(fr *Frame, st *State, op token.Token, x, y *Val, xt, yt, rt types.Type, in ssa.Instruction) *Val {
	// pointer arithmetic through uintptr
	if x.K == KUintptr || y.K == KUintptr {
		if op == token.ADD {
			if x.K == KUintptr && y.K == KScalar {
				return &Val{K: KUintptr, Typ: rt, Base: x.Base, Addend: ex.name(Add(x.Addend, ZExt(y.T, 64)), "add")}
			}
			if y.K == KUintptr && x.K == KScalar {
				return &Val{K: KUintptr, Typ: rt, Base: y.Base, Addend: ex.name(Add(y.Addend, ZExt(x.T, 64)), "add")}
			}
		}
		ex.note("unsupported uintptr arithmetic %s in %s", op, fr.key)
		return ex.freshVal(rt, "uintptr")
	}
	if op == token.EQL || op == token.NEQ {
		c, ok := ex.valEq(x, y)
		if !ok {
			if x.K != KOpaque && y.K != KOpaque {
				ex.note("unsupported comparison of kinds %d,%d in %s", x.K, y.K, fr.key)
			}
			c = ex.declare("cmp", BoolSort)
		}
		if op == token.NEQ {
			c = Not(c)
		}
		return &Val{K: KScalar, Typ: rt, T: c}
	}
	if x.K != KScalar || y.K != KScalar {
		if x.K == KString && op == token.ADD {
			return ex.freshVal(rt, "strcat")
		}
		return ex.freshVal(rt, "binop")
	}
	if x.T.Sort.K == SBool {
		switch op {
		case token.AND, token.LAND:
			return &Val{K: KScalar, Typ: rt, T: And(x.T, y.T)}
		case token.OR, token.LOR:
			return &Val{K: KScalar, Typ: rt, T: Or(x.T, y.T)}
		}
		return ex.freshVal(rt, "boolop")
	}
	w, signed, _ := intWidth(xt)
	a, b := x.T, y.T
	ord := func() string {
		if in != nil {
			return ex.ordinalAt(fr, in)
		}
		return "spec"
	}
	pos := ""
	if in != nil {
		pos = posOf(fr.fn, in.Pos())
	}
	var r Term
	switch op {
	case token.ADD:
		r = Add(a, b)
	case token.SUB:
		r = Sub(a, b)
	case token.MUL:
		r = Mul(a, b)
	case token.QUO, token.REM:
		if in != nil {
			ex.oblige(st, "div", fmt.Sprintf("div[%s]", ord()), Ne(b, BVConst(0, w)), nil, pos, "divisor is not zero")
		}
		if signed {
			if op == token.QUO {
				r = SDiv(a, b)
			} else {
				r = SRem(a, b)
			}
		} else {
			if op == token.QUO {
				r = UDiv(a, b)
			} else {
				r = URem(a, b)
			}
		}
	case token.AND:
		r = BAnd(a, b)
	case token.OR:
		r = BOr(a, b)
	case token.XOR:
		r = BXor(a, b)
	case token.AND_NOT:
		r = BAnd(a, BNot(b))
	case token.SHL, token.SHR:
		yw, ysigned, _ := intWidth(yt)
		if ysigned && in != nil {
			ex.oblige(st, "shift", fmt.Sprintf("shift[%s]", ord()), SLe(BVConst(0, yw), b), nil, pos, "shift count is not negative")
		}
		var sh Term
		big := False
		if yw <= w {
			sh = ZExt(b, w)
		} else {
			sh = Extract(b, w-1, 0)
			big = Not(ULt(b, BVConst(int64(w), yw)))
		}
		if op == token.SHL {
			r = Ite(big, BVConst(0, w), Shl(a, sh))
		} else if signed {
			r = Ite(big, AShr(a, BVConst(int64(w-1), w)), AShr(a, sh))
		} else {
			r = Ite(big, BVConst(0, w), LShr(a, sh))
		}
	case token.LSS, token.LEQ, token.GTR, token.GEQ:
		var c Term
		switch op {
		case token.LSS:
			if signed {
				c = SLt(a, b)
			} else {
				c = ULt(a, b)
			}
		case token.LEQ:
			if signed {
				c = SLe(a, b)
			} else {
				c = ULe(a, b)
			}
		case token.GTR:
			if signed {
				c = SLt(b, a)
			} else {
				c = ULt(b, a)
			}
		case token.GEQ:
			if signed {
				c = SLe(b, a)
			} else {
				c = ULe(b, a)
			}
		}
		return &Val{K: KScalar, Typ: rt, T: c}
	default:
		ex.note("unsupported binary op %s in %s", op, fr.key)
		return ex.freshVal(rt, "binop")
	}
	return &Val{K: KScalar, Typ: rt, T: r}
}
