package main

// Contract files: "//@" comment lines, kept in /repo/<pkg>/zz_contracts_verif.go
// (build tag verif, comments only) for repository functions and in
// /verif/gocv/extern.spec for assumed (trusted) contracts of dependencies.

import (
	"bufio"
	"fmt"
	"os"
	"regexp"
	"strconv"
	"strings"
)

type Clause struct {
	AtReturn int // >0: the clause applies only at the k-th return statement (source order)
	Cfg      string // non-empty: the clause applies only in this build configuration
	Kind  string // requires ensures invariant assert
	Tags  []string
	Label string
	Expr  *SExpr
	Text  string
	File  string
	Line  int
}

type LoopSpec struct {
	Invariants []*Clause
	Decreases  *SExpr
	Unroll     int
}

type Contract struct {
	Key         string
	Pkg         string // package path the contract was declared in ("" for extern)
	Trusted     bool
	AsmReturns  []*AsmRet // assembly stubs: result values established by a dataflow over the assembly text
	TrustedWhy  string
	Inline      bool
	ParamNames  []string
	ResultNames []string
	Requires    []*Clause
	Ensures     []*Clause
	Assumes     []*Clause // postconditions assumed at call sites and NOT checked against the body (listed as assumptions)
	Modifies    []*SExpr
	HasModifies bool
	Loops       map[int]*LoopSpec
	ResultAlias map[string]string // result name -> parameter name whose backing object the result slice shares
	FreshResult bool
	File        string
	Line        int
	IsVar       bool // contract of a function-typed package variable
	Splits      []*SExpr
	NoGrow      map[int]bool // append calls (by ordinal) that are proved to fit the capacity; only the in-place result is modelled
	CallCounts  []CallCount  // "counts call NAME as G": the ghost global G is incremented at every call of NAME made by this function itself
	Asserts     []*AssertAt
}

// AsmRet: the named result of an assembly function only ever receives one of the listed constants.
type AsmRet struct {
	Result  string
	Allowed []int64
	Except  []int // jumps (by ordinal) into the storing block that are infeasible under the stub's precondition (listed as assumptions)
	Line    int
}

// AssertAt is an assertion anchored just before the K-th call (in block order) of the named builtin or function.
type CallCount struct {
	Callee string
	Ghost  string
}

type AssertAt struct {
	Callee string
	K      int
	Clause *Clause
	Split  *SExpr // optional case split: the assertion is proved separately under Split and under !Split
}

type PureFn struct {
	Name   string
	Params []string
	PTypes []string
	Ret    string
	Body   *SExpr
	Pkg    string
}

type GhostDecl struct {
	Name string
	Type string // go basic type name, "error", "bool"
	On   string // "" for globals, else canonical type key it is a field of
}

type ShapeDecl struct {
	TypeKey string
	Field   string
	Expr    *SExpr
}

type ImplDecl struct {
	Iface string
	Types []string
}

type Contracts struct {
	Funcs  map[string]*Contract
	Pures  map[string]*PureFn
	Ghosts map[string]*GhostDecl            // globals by name
	GhostF map[string]map[string]*GhostDecl // type key -> field -> decl
	Shapes map[string]*ShapeDecl            // typekey.field
	Impls  map[string][]string
	OtherImpl map[string][]string
	GlobalInvs []*GlobalInv
	Lemmas []*Lemma
	Errs   []string
}

// GlobalInv is a fact about package-level variables established by the package initializer and
// assumed at the entry of every other function (package-level variables are not written outside init: C17 sweep).
type GlobalInv struct {
	Pkg    string
	Clause *Clause
}

type Lemma struct {
	Name   string
	Tags   []string
	Params []string
	PTypes []string
	Hyps   []*SExpr
	Concl  []*SExpr
	Pkg    string
	File   string
	Line   int
}

func NewContracts() *Contracts {
	return &Contracts{Funcs: map[string]*Contract{}, Pures: map[string]*PureFn{}, Ghosts: map[string]*GhostDecl{},
		GhostF: map[string]map[string]*GhostDecl{}, Shapes: map[string]*ShapeDecl{}, Impls: map[string][]string{}, OtherImpl: map[string][]string{}}
}

var tagRe = regexp.MustCompile(`^C[0-9]{2,3}$`)

// qualify turns a contract-file-relative function name into the canonical
// types.Func.FullName form.
func qualify(pkg, name string) string {
	if pkg == "" {
		return name
	}
	if strings.HasPrefix(name, "(") {
		// (*T).M or (T).M
		end := strings.Index(name, ")")
		inner := name[1:end]
		rest := name[end+1:]
		star := ""
		if strings.HasPrefix(inner, "*") {
			star = "*"
			inner = inner[1:]
		}
		if !strings.Contains(inner, ".") {
			inner = pkg + "." + inner
		}
		return "(" + star + inner + ")" + rest
	}
	if !strings.Contains(name, ".") || strings.HasPrefix(name, "init$") {
		return pkg + "." + name
	}
	return name
}

func qualifyType(pkg, name string) string {
	star := ""
	for strings.HasPrefix(name, "*") {
		star += "*"
		name = name[1:]
	}
	if !strings.Contains(name, ".") && pkg != "" && !isBasicTypeName(name) {
		name = pkg + "." + name
	}
	return star + name
}

func isBasicTypeName(s string) bool {
	switch s {
	case "int", "int8", "int16", "int32", "int64", "uint", "uint8", "uint16", "uint32", "uint64", "uintptr", "bool", "byte", "string", "error":
		return true
	}
	return false
}

// splitHead parses "kind[tags label] rest".
func clauseCfg(c *Clause) {
	if strings.HasPrefix(c.Label, "cfg:") {
		c.Cfg = c.Label[4:]
		c.Label = ""
	}
	var keep []string
	for _, t := range c.Tags {
		keep = append(keep, t)
	}
	c.Tags = keep
}

func splitHead(s string) (tags []string, label string, rest string) {
	s = strings.TrimSpace(s)
	if strings.HasPrefix(s, "[") {
		end := strings.Index(s, "]")
		for _, f := range strings.FieldsFunc(s[1:end], func(r rune) bool { return r == ',' || r == ' ' }) {
			if tagRe.MatchString(f) {
				tags = append(tags, f)
			} else if strings.HasPrefix(f, "cfg:") || f == "nocall" {
				tags = append(tags, f)
			} else {
				label = f
			}
		}
		s = s[end+1:]
	}
	return tags, label, strings.TrimSpace(s)
}

func (cs *Contracts) errf(file string, line int, f string, a ...interface{}) {
	cs.Errs = append(cs.Errs, fmt.Sprintf("%s:%d: %s", file, line, fmt.Sprintf(f, a...)))
}

// LoadFile reads one contract file. pkg is the import path the names are
// relative to ("" = fully qualified names, extern file).
func (cs *Contracts) LoadFile(path, pkg string) error {
	f, err := os.Open(path)
	if err != nil {
		return err
	}
	defer f.Close()
	sc := bufio.NewScanner(f)
	sc.Buffer(make([]byte, 1<<20), 1<<20)
	type item struct {
		text string
		line int
	}
	var items []item
	ln := 0
	for sc.Scan() {
		ln++
		l := sc.Text()
		t := strings.TrimSpace(l)
		if !strings.HasPrefix(t, "//@") {
			continue
		}
		body := t[3:]
		if strings.HasPrefix(strings.TrimSpace(body), "#") || strings.TrimSpace(body) == "" {
			continue
		}
		// continuation: body starts with at least 6 spaces
		if strings.HasPrefix(body, "      ") && len(items) > 0 {
			items[len(items)-1].text += " " + strings.TrimSpace(body)
			continue
		}
		items = append(items, item{strings.TrimSpace(body), ln})
	}
	var cur *Contract
	var curLemma *Lemma
	for _, it := range items {
		w := it.text
		kw := w
		rest := ""
		if i := strings.IndexAny(w, " \t["); i >= 0 {
			kw = w[:i]
			rest = strings.TrimSpace(w[i:])
		}
		mk := func(kind, rest string) *Clause {
			tags, label, ex := splitHead(rest)
			e, err := ParseSpec(ex)
			if err != nil {
				cs.errf(path, it.line, "%v", err)
				return nil
			}
			cl := &Clause{Kind: kind, Label: label, Expr: e, Text: ex, File: path, Line: it.line}
			for _, t := range tags {
				if strings.HasPrefix(t, "cfg:") {
					cl.Cfg = t[4:]
				} else {
					cl.Tags = append(cl.Tags, t)
				}
			}
			return cl
		}
		atRet := 0
		if strings.HasPrefix(kw, "ensures@") {
			if k, err := strconv.Atoi(kw[len("ensures@"):]); err == nil {
				atRet = k
				kw = "ensures"
			}
		}
		switch kw {
		case "func", "funcvar":
			curLemma = nil
			name := strings.Fields(rest)[0]
			key := qualify(pkg, name)
			if kw == "funcvar" {
				key = "var " + key
			}
			cur = &Contract{Key: key, Pkg: pkg, Loops: map[int]*LoopSpec{}, File: path, Line: it.line, IsVar: kw == "funcvar", ResultAlias: map[string]string{}}
			if _, dup := cs.Funcs[key]; dup {
				cs.errf(path, it.line, "duplicate contract for %s", key)
			}
			cs.Funcs[key] = cur
		case "params":
			if cur == nil {
				cs.errf(path, it.line, "params outside func")
				continue
			}
			parts := strings.Split(rest, "->")
			for _, p := range strings.FieldsFunc(parts[0], func(r rune) bool { return r == ',' || r == ' ' }) {
				cur.ParamNames = append(cur.ParamNames, p)
			}
			if len(parts) > 1 {
				for _, p := range strings.FieldsFunc(parts[1], func(r rune) bool { return r == ',' || r == ' ' }) {
					cur.ResultNames = append(cur.ResultNames, p)
				}
			}
		case "trusted":
			if cur != nil {
				cur.Trusted = true
				cur.TrustedWhy = strings.Trim(rest, "\"")
			}
		case "asmreturns":
			// asmreturns RESULT in c1 c2 ... [except K ...]   (K: ordinal, in text order, of a jump to the block that stores RESULT)
			if cur != nil {
				fs := strings.Fields(rest)
				if len(fs) < 3 || fs[1] != "in" {
					cs.errf(path, it.line, "bad asmreturns clause")
					continue
				}
				ar := &AsmRet{Result: fs[0], Line: it.line}
				exc := false
				for _, f := range fs[2:] {
					if f == "except" {
						exc = true
						continue
					}
					v, err := strconv.ParseInt(f, 10, 64)
					if err != nil {
						cs.errf(path, it.line, "bad asmreturns constant %q", f)
						continue
					}
					if exc {
						ar.Except = append(ar.Except, int(v))
					} else {
						ar.Allowed = append(ar.Allowed, v)
					}
				}
				cur.AsmReturns = append(cur.AsmReturns, ar)
			}
		case "inline":
			if cur != nil {
				cur.Inline = true
			}
		case "freshresult":
			if cur != nil {
				cur.FreshResult = true
			}
		case "alias":
			// alias RESULT PARAM
			fs := strings.Fields(rest)
			if cur != nil && len(fs) == 2 {
				cur.ResultAlias[fs[0]] = fs[1]
			}
		case "assumes":
			if cur == nil {
				cs.errf(path, it.line, "assumes outside func")
				continue
			}
			c := mk("assumes", rest)
			if c != nil {
				cur.Assumes = append(cur.Assumes, c)
			}
		case "requires", "ensures":
			if curLemma != nil {
				_, _, ex := splitHead(rest)
				e, err := ParseSpec(ex)
				if err != nil {
					cs.errf(path, it.line, "%v", err)
					continue
				}
				if kw == "requires" {
					curLemma.Hyps = append(curLemma.Hyps, e)
				} else {
					curLemma.Concl = append(curLemma.Concl, e)
				}
				continue
			}
			if cur == nil {
				cs.errf(path, it.line, "%s outside func", kw)
				continue
			}
			c := mk(kw, rest)
			if c == nil {
				continue
			}
			c.AtReturn = atRet
			if kw == "requires" {
				cur.Requires = append(cur.Requires, c)
			} else {
				cur.Ensures = append(cur.Ensures, c)
			}
		case "modifies":
			if cur == nil {
				cs.errf(path, it.line, "modifies outside func")
				continue
			}
			cur.HasModifies = true
			if strings.TrimSpace(rest) == "nothing" || strings.TrimSpace(rest) == "" {
				continue
			}
			es, err := ParseSpecList(rest)
			if err != nil {
				cs.errf(path, it.line, "%v", err)
				continue
			}
			cur.Modifies = append(cur.Modifies, es...)
		case "loop":
			if cur == nil {
				cs.errf(path, it.line, "loop outside func")
				continue
			}
			fs := strings.SplitN(rest, " ", 2)
			k, err := strconv.Atoi(fs[0])
			if err != nil || len(fs) < 2 {
				cs.errf(path, it.line, "bad loop clause")
				continue
			}
			ls := cur.Loops[k]
			if ls == nil {
				ls = &LoopSpec{}
				cur.Loops[k] = ls
			}
			r2 := strings.TrimSpace(fs[1])
			switch {
			case strings.HasPrefix(r2, "invariant"):
				c := mk("invariant", r2[len("invariant"):])
				if c != nil {
					ls.Invariants = append(ls.Invariants, c)
				}
			case strings.HasPrefix(r2, "decreases"):
				e, err := ParseSpec(strings.TrimSpace(r2[len("decreases"):]))
				if err != nil {
					cs.errf(path, it.line, "%v", err)
				} else {
					ls.Decreases = e
				}
			case strings.HasPrefix(r2, "unroll"):
				n, err := strconv.Atoi(strings.TrimSpace(r2[len("unroll"):]))
				if err != nil {
					cs.errf(path, it.line, "bad unroll")
				}
				ls.Unroll = n
			default:
				cs.errf(path, it.line, "unknown loop clause %q", r2)
			}
		case "assert":
			// assert call NAME K [tags label] expr
			if cur == nil {
				cs.errf(path, it.line, "assert outside func")
				continue
			}
			fs := strings.SplitN(rest, " ", 4)
			if len(fs) < 4 || fs[0] != "call" {
				cs.errf(path, it.line, "bad assert clause (want: assert call NAME K [tags] expr)")
				continue
			}
			k, err := strconv.Atoi(fs[2])
			if fs[2] == "*" {
				// every call of that name (at least one must exist in each build configuration)
				k, err = -1, nil
			}
			if err != nil {
				cs.errf(path, it.line, "bad assert ordinal")
				continue
			}
			body := fs[3]
			var split *SExpr
			if i := strings.Index(body, " split("); i >= 0 && strings.HasPrefix(strings.TrimSpace(body), "[") {
				// [tags] split(cond) expr
				j := i + len(" split(")
				depth := 1
				k2 := j
				for ; k2 < len(body) && depth > 0; k2++ {
					if body[k2] == '(' {
						depth++
					} else if body[k2] == ')' {
						depth--
					}
				}
				se, err := ParseSpec(body[j : k2-1])
				if err != nil {
					cs.errf(path, it.line, "%v", err)
					continue
				}
				split = se
				body = body[:i] + body[k2:]
			}
			c := mk("assert", body)
			if c != nil {
				cur.Asserts = append(cur.Asserts, &AssertAt{Callee: fs[1], K: k, Clause: c, Split: split})
			}
		case "counts":
			// counts call NAME as GHOST
			fs := strings.Fields(rest)
			if cur == nil || len(fs) != 4 || fs[0] != "call" || fs[2] != "as" {
				cs.errf(path, it.line, "bad counts clause (want: counts call NAME as GHOST)")
				continue
			}
			cur.CallCounts = append(cur.CallCounts, CallCount{Callee: fs[1], Ghost: fs[3]})
		case "nogrow":
			if cur == nil {
				continue
			}
			for _, f := range strings.Fields(rest) {
				k, err := strconv.Atoi(f)
				if err != nil {
					cs.errf(path, it.line, "bad nogrow ordinal %q", f)
					continue
				}
				if cur.NoGrow == nil {
					cur.NoGrow = map[int]bool{}
				}
				cur.NoGrow[k] = true
			}
		case "split":
			if cur == nil {
				continue
			}
			e, err := ParseSpec(rest)
			if err != nil {
				cs.errf(path, it.line, "%v", err)
				continue
			}
			cur.Splits = append(cur.Splits, e)
		case "pure":
			cur = nil
			curLemma = nil
			// pure name(a T, b U) R = expr
			eq := strings.Index(rest, "=")
			// find the '=' that is not part of ==, <=, >=, != : take the first " = "
			if i := strings.Index(rest, " = "); i >= 0 {
				eq = i + 1
			}
			head := strings.TrimSpace(rest[:eq])
			body := strings.TrimSpace(rest[eq+1:])
			op := strings.Index(head, "(")
			cl := strings.LastIndex(head, ")")
			if op < 0 || cl < 0 {
				cs.errf(path, it.line, "bad pure header %q", head)
				continue
			}
			pf := &PureFn{Name: strings.TrimSpace(head[:op]), Ret: strings.TrimSpace(head[cl+1:]), Pkg: pkg}
			for _, p := range strings.Split(head[op+1:cl], ",") {
				fs := strings.Fields(p)
				if len(fs) == 0 {
					continue
				}
				pf.Params = append(pf.Params, fs[0])
				if len(fs) > 1 {
					pf.PTypes = append(pf.PTypes, fs[1])
				} else {
					pf.PTypes = append(pf.PTypes, "")
				}
			}
			e, err := ParseSpec(body)
			if err != nil {
				cs.errf(path, it.line, "%v", err)
				continue
			}
			pf.Body = e
			if _, dup := cs.Pures[pf.Name]; dup {
				cs.errf(path, it.line, "duplicate pure %s", pf.Name)
			}
			cs.Pures[pf.Name] = pf
		case "lemma":
			cur = nil
			tags, _, r2 := splitHead(rest)
			op := strings.Index(r2, "(")
			cl := strings.LastIndex(r2, ")")
			if op < 0 || cl < 0 {
				cs.errf(path, it.line, "bad lemma header")
				continue
			}
			curLemma = &Lemma{Name: strings.TrimSpace(r2[:op]), Tags: tags, Pkg: pkg, File: path, Line: it.line}
			for _, p := range strings.Split(r2[op+1:cl], ",") {
				fs := strings.Fields(p)
				if len(fs) == 2 {
					curLemma.Params = append(curLemma.Params, fs[0])
					curLemma.PTypes = append(curLemma.PTypes, fs[1])
				}
			}
			cs.Lemmas = append(cs.Lemmas, curLemma)
		case "ghost":
			fs := strings.Fields(rest)
			if len(fs) >= 3 && fs[0] == "global" {
				cs.Ghosts[fs[1]] = &GhostDecl{Name: fs[1], Type: fs[2]}
			} else if len(fs) >= 4 && fs[0] == "field" {
				tk := qualifyType(pkg, fs[1])
				if cs.GhostF[tk] == nil {
					cs.GhostF[tk] = map[string]*GhostDecl{}
				}
				cs.GhostF[tk][fs[2]] = &GhostDecl{Name: fs[2], Type: fs[3], On: tk}
			} else {
				cs.errf(path, it.line, "bad ghost declaration")
			}
		case "shape":
			// shape T.field = expr   (expr over "self")
			i := strings.Index(rest, "=")
			lhs := strings.TrimSpace(rest[:i])
			dot := strings.LastIndex(lhs, ".")
			e, err := ParseSpec(strings.TrimSpace(rest[i+1:]))
			if err != nil {
				cs.errf(path, it.line, "%v", err)
				continue
			}
			tk := qualifyType(pkg, lhs[:dot])
			cs.Shapes[tk+"."+lhs[dot+1:]] = &ShapeDecl{TypeKey: tk, Field: lhs[dot+1:], Expr: e}
		case "globalinv":
			cur = nil
			c := mk("globalinv", rest)
			if c != nil {
				cs.GlobalInvs = append(cs.GlobalInvs, &GlobalInv{Pkg: pkg, Clause: c})
			}
		case "otherimplements":
			// otherimplements IFACE: IFACE2, ...   the opaque dynamic types of IFACE values also implement IFACE2
			i := strings.Index(rest, ":")
			ifc := strings.TrimSpace(rest[:i])
			for _, t := range strings.Split(rest[i+1:], ",") {
				cs.OtherImpl[ifc] = append(cs.OtherImpl[ifc], strings.TrimSpace(t))
			}
		case "implementers":
			// implementers io.ReadCloser: *decompressor, other
			i := strings.Index(rest, ":")
			ifc := strings.TrimSpace(rest[:i])
			for _, t := range strings.Split(rest[i+1:], ",") {
				t = strings.TrimSpace(t)
				if t != "other" {
					t = qualifyType(pkg, t)
				}
				cs.Impls[ifc] = append(cs.Impls[ifc], t)
			}
		default:
			cs.errf(path, it.line, "unknown directive %q", kw)
		}
	}
	return nil
}
