package main

import (
	"fmt"
	"go/types"
	"math/big"
	"sort"
	"strings"
)

type VKind int

const (
	KScalar VKind = iota // integer (BV) or bool (Bool) or error (BV32)
	KPtr
	KSlice
	KIface
	KStruct
	KArray // SMT array of integer leaves
	KTuple
	KFunc
	KString
	KOpaque
	KUntyped // untyped spec constant
	KUintptr // pointer converted to uintptr, plus byte addend
)

type Obj struct {
	ID       int
	Name     string
	Typ      types.Type // struct/array/... type stored; for Backing: element type
	Backing  bool
	Symbolic bool
	Local    bool
	Opaque   bool
	Fresh    bool
	Global   bool
}

type Step struct {
	IsIdx bool
	Field int
	Name  string
	Idx   Term // BV64
	N     int64 // array length for embedded arrays (0 for slice backing)
}

type Loc struct {
	Obj   *Obj
	Steps []Step
}

func (l Loc) Key() string {
	var b strings.Builder
	fmt.Fprintf(&b, "%d|", l.Obj.ID)
	for _, s := range l.Steps {
		if s.IsIdx {
			b.WriteString("[*]")
		} else {
			b.WriteByte('.')
			b.WriteString(s.Name)
		}
	}
	return b.String()
}

func (l Loc) String() string {
	var b strings.Builder
	b.WriteString(l.Obj.Name)
	for _, s := range l.Steps {
		if s.IsIdx {
			b.WriteString("[" + s.Idx.S + "]")
		} else {
			b.WriteByte('.')
			b.WriteString(s.Name)
		}
	}
	return b.String()
}

func (l Loc) Field(i int, name string) Loc {
	st := make([]Step, len(l.Steps)+1)
	copy(st, l.Steps)
	st[len(l.Steps)] = Step{Field: i, Name: name}
	return Loc{l.Obj, st}
}

func (l Loc) Index(idx Term, n int64) Loc {
	st := make([]Step, len(l.Steps)+1)
	copy(st, l.Steps)
	st[len(l.Steps)] = Step{IsIdx: true, Idx: idx, N: n}
	return Loc{l.Obj, st}
}

func (l Loc) HasIdx() bool {
	for _, s := range l.Steps {
		if s.IsIdx {
			return true
		}
	}
	return false
}

// SameStatic reports whether two locations denote the same region and carry
// textually identical index terms.
func (l Loc) SameStatic(m Loc) bool {
	if l.Obj != m.Obj || len(l.Steps) != len(m.Steps) {
		return false
	}
	for i := range l.Steps {
		a, b := l.Steps[i], m.Steps[i]
		if a.IsIdx != b.IsIdx {
			return false
		}
		if a.IsIdx {
			if a.Idx.S != b.Idx.S {
				return false
			}
		} else if a.Field != b.Field || a.Name != b.Name {
			return false
		}
	}
	return true
}

type Target struct {
	G     Term // guard
	Loc   Loc
	Limit Term // number of elements from Loc to the end of the slice it was derived from (valid iff HasLimit)
	HasLimit bool
}

type Val struct {
	K   VKind
	Typ types.Type
	T   Term // scalar term; KArray: array term; KString: content id
	// pointers, slices
	Tg    []Target
	IsNil Term
	Off   Term // slice: element offset of s[0] within the array at Tg.Loc
	Len   Term
	Cap   Term
	// interfaces
	Tag   Term
	Cases map[string]*Val // type key -> payload
	// struct / tuple
	Fs []*Val
	// func
	Fn interface{} // *ssa.Function, *ssa.Builtin, or nil
	FnVar string   // name of package-level function variable this value was loaded from
	Bind []*Val   // closure bindings
	// untyped
	C *big.Int
	// uintptr
	Base   *Val
	Addend Term
	Elem   types.Type // KArray leaf type
}

func (v *Val) String() string {
	if v == nil {
		return "<nil>"
	}
	switch v.K {
	case KScalar:
		return v.T.S
	case KPtr:
		var s []string
		for _, t := range v.Tg {
			s = append(s, t.G.S+"->"+t.Loc.String())
		}
		return "ptr{" + strings.Join(s, ";") + " nil=" + v.IsNil.S + "}"
	case KSlice:
		var s []string
		for _, t := range v.Tg {
			s = append(s, t.G.S+"->"+t.Loc.String())
		}
		return "slice{" + strings.Join(s, ";") + " off=" + v.Off.S + " len=" + v.Len.S + "}"
	case KIface:
		return "iface{tag=" + v.Tag.S + "}"
	case KUntyped:
		return v.C.String()
	}
	return fmt.Sprintf("val(kind %d)", v.K)
}

// ---------- type helpers ----------

func under(t types.Type) types.Type {
	for {
		switch x := t.(type) {
		case *types.Named:
			t = x.Underlying()
		case *types.Alias:
			t = types.Unalias(x)
		default:
			return t
		}
	}
}

func isErrorType(t types.Type) bool {
	if t == nil {
		return false
	}
	t = types.Unalias(t)
	if n, ok := t.(*types.Named); ok {
		return n.Obj().Pkg() == nil && n.Obj().Name() == "error"
	}
	return false
}

func intWidth(t types.Type) (w int, signed bool, ok bool) {
	b, isb := under(t).(*types.Basic)
	if !isb {
		return 0, false, false
	}
	switch b.Kind() {
	case types.Int8:
		return 8, true, true
	case types.Int16:
		return 16, true, true
	case types.Int32:
		return 32, true, true
	case types.Int64, types.Int:
		return 64, true, true
	case types.Uint8:
		return 8, false, true
	case types.Uint16:
		return 16, false, true
	case types.Uint32:
		return 32, false, true
	case types.Uint64, types.Uint, types.Uintptr:
		return 64, false, true
	case types.UntypedInt, types.UntypedRune:
		return 64, true, true
	}
	return 0, false, false
}

func isBool(t types.Type) bool {
	b, ok := under(t).(*types.Basic)
	return ok && (b.Kind() == types.Bool || b.Kind() == types.UntypedBool)
}

func isString(t types.Type) bool {
	b, ok := under(t).(*types.Basic)
	return ok && (b.Kind() == types.String || b.Kind() == types.UntypedString)
}

func isUnsafePointer(t types.Type) bool {
	b, ok := under(t).(*types.Basic)
	return ok && b.Kind() == types.UnsafePointer
}

func typeKey(t types.Type) string {
	return types.TypeString(types.Unalias(t), nil)
}

var sizes = types.SizesFor("gc", "amd64")

// ---------- state ----------

type State struct {
	cells map[string]*Val
	pc    Term
}

func NewState() *State { return &State{cells: map[string]*Val{}, pc: True} }

func (s *State) Clone() *State {
	n := &State{cells: make(map[string]*Val, len(s.cells)+8), pc: s.pc}
	for k, v := range s.cells {
		n.cells[k] = v
	}
	return n
}

func sortedKeys(m map[string]*Val) []string {
	ks := make([]string, 0, len(m))
	for k := range m {
		ks = append(ks, k)
	}
	sort.Strings(ks)
	return ks
}
