package main

import (
	"os"
	"fmt"
	"go/constant"
	"go/token"
	"go/types"
	"math/big"
	"strings"

	"golang.org/x/tools/go/ssa"
)

type SCtx struct {
	ex     *Exec
	fr     *Frame
	pkg    string
	env    map[string]*Val
	oldEnv map[string]*Val
	cur    *State
	old    *State
	inOld  bool
	errs   *[]string
	goal   bool // evaluating an obligation's goal in positive position: universal quantifiers are skolemised
	loopPre *State // state at entry of the loop whose invariant is being evaluated (atentry)
}

func (c *SCtx) st() *State {
	if c.inOld && c.old != nil {
		return c.old
	}
	return c.cur
}

func (c *SCtx) fail(f string, a ...interface{}) *Val {
	msg := fmt.Sprintf(f, a...)
	c.ex.specErr(msg)
	return &Val{K: KOpaque}
}

func (ex *Exec) specErr(msg string) {
	if ex.specWhere != "" {
		msg = ex.specWhere + ": " + msg
	}
	for _, m := range ex.specErrs {
		if m == msg {
			return
		}
	}
	ex.specErrs = append(ex.specErrs, msg)
}

func (ex *Exec) evalSpec(fr *Frame, e *SExpr, cur, old *State, env map[string]*Val) *Val {
	c := ex.rootCtx(fr, cur, old, env)
	return c.eval(e)
}

func (ex *Exec) rootCtx(fr *Frame, cur, old *State, env map[string]*Val) *SCtx {
	c := &SCtx{ex: ex, fr: fr, cur: cur, old: old, env: env}
	if fr != nil {
		if fr.fn.Pkg != nil {
			c.pkg = fr.fn.Pkg.Pkg.Path()
		}
		c.oldEnv = map[string]*Val{}
		for i, p := range fr.fn.Params {
			if i < len(fr.args) {
				c.oldEnv[p.Name()] = fr.args[i]
			}
		}
		if fr.contract != nil && len(fr.contract.ParamNames) > 0 {
			for i, n := range fr.contract.ParamNames {
				if i < len(fr.args) {
					c.oldEnv[n] = fr.args[i]
				}
			}
		}
	}
	return c
}

func (ex *Exec) evalBool(fr *Frame, e *SExpr, cur, old *State, env map[string]*Val) Term {
	c := ex.rootCtx(fr, cur, old, env)
	return c.bool(e)
}

func (c *SCtx) bool(e *SExpr) Term {
	v := c.eval(e)
	if v.K == KScalar && v.T.Sort.K == SBool {
		return v.T
	}
	if v.K == KUntyped {
		return BoolConst(v.C.Sign() != 0)
	}
	c.fail("specification expression %s is not boolean", e.String())
	return c.ex.declare("specbool", BoolSort)
}

func (ex *Exec) coerceInt(v *Val) *Val {
	if v.K == KUntyped {
		return &Val{K: KScalar, Typ: types.Typ[types.Int], T: BVConstBig(v.C, 64)}
	}
	return v
}

func (c *SCtx) lookupName(name string) *Val {
	ex := c.ex
	if v, ok := c.env[name]; ok {
		return v
	}
	switch name {
	case "nil":
		return &Val{K: KPtr, IsNil: True, Typ: types.Typ[types.UntypedNil]}
	case "true":
		return &Val{K: KScalar, Typ: types.Typ[types.Bool], T: True}
	case "false":
		return &Val{K: KScalar, Typ: types.Typ[types.Bool], T: False}
	}
	if c.inOld && c.oldEnv != nil {
		if v, ok := c.oldEnv[name]; ok {
			return v
		}
	}
	if c.fr != nil {
		if a := c.fr.latestAlloc(name); a != nil {
			o := c.fr.allocs[a]
			return ex.load(c.st(), Loc{Obj: o}, o.Typ)
		}
		for i, p := range c.fr.fn.Params {
			if p.Name() == name && i < len(c.fr.args) {
				return c.fr.args[i]
			}
		}
		if c.oldEnv != nil {
			if v, ok := c.oldEnv[name]; ok {
				return v
			}
		}
	}
	if _, ok := ex.p.cs.Ghosts[name]; ok {
		return ex.load(c.st(), Loc{Obj: ex.ghost, Steps: []Step{{Name: "$" + name}}}, ex.ghostType(ex.ghost, name))
	}
	// package-level constant or variable
	if v := c.pkgName(c.pkg, name); v != nil {
		return v
	}
	return nil
}

func (c *SCtx) lookupNameQuiet(name string) *Val {
	saved := c.ex.specErrs
	v := c.lookupName(name)
	c.ex.specErrs = saved
	return v
}

func (p *Prog) pkgPathByName(name string) string {
	best := ""
	for _, sp := range p.ssaProg.AllPackages() {
		if sp.Pkg.Path() == name {
			return name
		}
		if sp.Pkg.Name() == name && (best == "" || len(sp.Pkg.Path()) < len(best)) {
			best = sp.Pkg.Path()
		}
	}
	return best
}

func (c *SCtx) pkgName(pkgPath, name string) *Val {
	ex := c.ex
	for _, sp := range ex.p.ssaProg.AllPackages() {
		if sp.Pkg.Path() != pkgPath {
			continue
		}
		o := sp.Pkg.Scope().Lookup(name)
		if o == nil {
			return nil
		}
		switch x := o.(type) {
		case *types.Const:
			if x.Val().Kind() == constant.Int {
				bi, _ := new(big.Int).SetString(x.Val().ExactString(), 10)
				if b, ok := x.Type().Underlying().(*types.Basic); ok && b.Info()&types.IsUntyped == 0 {
					if w, _, ok := intWidth(x.Type()); ok {
						return &Val{K: KScalar, Typ: x.Type(), T: BVConstBig(bi, w)}
					}
				}
				return &Val{K: KUntyped, C: bi}
			}
			if x.Val().Kind() == constant.Bool {
				return &Val{K: KScalar, Typ: types.Typ[types.Bool], T: BoolConst(constant.BoolVal(x.Val()))}
			}
		case *types.Var:
			if g, ok := sp.Members[name].(*ssa.Global); ok {
				gobj := ex.globalObj(g)
				return ex.load(c.st(), Loc{Obj: gobj}, gobj.Typ)
			}
		}
		return nil
	}
	return nil
}

// addr evaluates an lvalue expression to a pointer value; nil if e is not addressable.
func (c *SCtx) addr(e *SExpr) *Val {
	ex := c.ex
	switch e.Op {
	case "id":
		if _, ok := c.env[e.Name]; ok {
			return nil
		}
		if c.fr != nil && !c.inOld {
			if a := c.fr.latestAlloc(e.Name); a != nil {
				o := c.fr.allocs[a]
				return &Val{K: KPtr, IsNil: False, Typ: types.NewPointer(o.Typ), Tg: []Target{{G: True, Loc: Loc{Obj: o}}}}
			}
		}
		if _, ok := ex.p.cs.Ghosts[e.Name]; ok {
			return &Val{K: KPtr, IsNil: False, Typ: types.NewPointer(ex.ghostType(ex.ghost, e.Name)), Tg: []Target{{G: True, Loc: Loc{Obj: ex.ghost, Steps: []Step{{Name: "$" + e.Name}}}}}}
		}
		// a package-level variable of the contract's package
		for _, sp := range ex.p.ssaProg.AllPackages() {
			if sp.Pkg.Path() != c.pkg {
				continue
			}
			if g, ok := sp.Members[e.Name].(*ssa.Global); ok {
				gobj := ex.globalObj(g)
				return &Val{K: KPtr, IsNil: False, Typ: types.NewPointer(gobj.Typ), Tg: []Target{{G: True, Loc: Loc{Obj: gobj}}}}
			}
		}
		return nil
	case "sel":
		var base *Val
		bv := c.evalNoFail(e.Args[0])
		if bv != nil && bv.K == KPtr {
			base = bv
		} else {
			base = c.addr(e.Args[0])
		}
		if base == nil || base.K != KPtr {
			return nil
		}
		if len(base.Tg) == 0 && base.Typ != nil {
			// selection through a nil pointer: the value is unspecified (a guard must exclude it)
			if pt, ok := under(base.Typ).(*types.Pointer); ok {
				if ex.dummies == nil {
					ex.dummies = map[string]*Obj{}
				}
				k := typeKey(pt.Elem())
				d := ex.dummies[k]
				if d == nil {
					d = ex.newObj("unspecified", pt.Elem())
					d.Symbolic = true
					d.Fresh = true
					if ex.isOpaqueStruct(pt.Elem()) {
						d.Opaque = true
					}
					ex.dummies[k] = d
				}
				base = &Val{K: KPtr, Typ: base.Typ, IsNil: base.IsNil, Tg: []Target{{G: True, Loc: Loc{Obj: d}}}}
			}
		}
		r := &Val{K: KPtr, IsNil: False}
		for _, t := range base.Tg {
			lt := ex.safeTypeAt(t.Loc)
			if t.Loc.Obj.Opaque && len(t.Loc.Steps) == 0 {
				lt = t.Loc.Obj.Typ
			}
			if lt == nil {
				continue
			}
			// ghost field?
			if gf, ok := ex.p.cs.GhostF[typeKey(lt)][e.Name]; ok {
				r.Tg = append(r.Tg, Target{G: t.G, Loc: Loc{Obj: t.Loc.Obj, Steps: append(append([]Step{}, t.Loc.Steps...), Step{Name: "$" + e.Name})}})
				r.Typ = types.NewPointer(ex.p.basicType(gf.Type))
				continue
			}
			st, ok := under(lt).(*types.Struct)
			if !ok || t.Loc.Obj.Opaque {
				c.fail("selector .%s on non-struct %s in %s", e.Name, lt, e.String())
				return nil
			}
			found := false
			for i := 0; i < st.NumFields(); i++ {
				if st.Field(i).Name() == e.Name {
					r.Tg = append(r.Tg, Target{G: t.G, Loc: t.Loc.Field(i, e.Name)})
					r.Typ = types.NewPointer(st.Field(i).Type())
					found = true
				}
			}
			if !found {
				// promoted field through embedded struct
				for i := 0; i < st.NumFields(); i++ {
					if st.Field(i).Embedded() {
						if es, ok := under(st.Field(i).Type()).(*types.Struct); ok {
							for j := 0; j < es.NumFields(); j++ {
								if es.Field(j).Name() == e.Name {
									r.Tg = append(r.Tg, Target{G: t.G, Loc: t.Loc.Field(i, st.Field(i).Name()).Field(j, e.Name)})
									r.Typ = types.NewPointer(es.Field(j).Type())
									found = true
								}
							}
						}
					}
				}
			}
			if !found {
				c.fail("no field %s in %s (%s)", e.Name, lt, e.String())
				return nil
			}
		}
		if len(r.Tg) == 0 {
			return nil
		}
		return r
	case "idx":
		iv := c.ex.coerceInt(c.eval(e.Args[1]))
		if iv.K != KScalar {
			return nil
		}
		idx := ex.idx64(iv, iv.Typ)
		xv := c.evalNoFail(e.Args[0])
		if xv != nil && xv.K == KSlice {
			r := &Val{K: KPtr, IsNil: False, Typ: types.NewPointer(under(xv.Typ).(*types.Slice).Elem())}
			for _, t := range xv.Tg {
				r.Tg = append(r.Tg, Target{G: t.G, Loc: t.Loc.Index(Add(xv.Off, idx), arrLen(ex, t.Loc)), Limit: Sub(xv.Len, idx), HasLimit: true})
			}
			return r
		}
		base := c.addr(e.Args[0])
		if base == nil {
			return nil
		}
		r := &Val{K: KPtr, IsNil: False}
		for _, t := range base.Tg {
			lt := ex.safeTypeAt(t.Loc)
			at, ok := under(lt).(*types.Array)
			if !ok {
				return nil
			}
			r.Typ = types.NewPointer(at.Elem())
			r.Tg = append(r.Tg, Target{G: t.G, Loc: t.Loc.Index(idx, at.Len())})
		}
		return r
	case "assert":
		v := c.eval(e.Args[0])
		if v.K != KIface {
			return nil
		}
		t := ex.p.resolveType(c.pkg, e.Type)
		if t == nil {
			c.fail("cannot resolve type %s", e.Type)
			return nil
		}
		if pv, ok := v.Cases[typeKey(t)]; ok && pv.K == KPtr {
			return nil // the payload is itself a pointer value, not an lvalue
		}
		return nil
	case "un":
		if e.Name == "*" {
			v := c.eval(e.Args[0])
			if v.K == KPtr {
				return v
			}
		}
	}
	return nil
}

func (c *SCtx) evalNoFail(e *SExpr) *Val {
	// evaluate but do not record errors for non-values (used to probe addressability)
	saved := c.ex.specErrs
	v := c.eval(e)
	if v == nil || v.K == KOpaque {
		c.ex.specErrs = saved
		return nil
	}
	return v
}

func (c *SCtx) typeOfPtrElem(p *Val) types.Type {
	if p.Typ != nil {
		if pt, ok := under(p.Typ).(*types.Pointer); ok {
			return pt.Elem()
		}
	}
	if len(p.Tg) > 0 {
		return c.ex.safeTypeAt(p.Tg[0].Loc)
	}
	return nil
}

func (c *SCtx) eval(e *SExpr) *Val {
	ex := c.ex
	switch e.Op {
	case "num":
		return &Val{K: KUntyped, C: e.Num}
	case "str":
		return &Val{K: KString, Typ: types.Typ[types.String], Len: BVConst(int64(len(e.Name)), 64), T: ex.p.strConst(e.Name)}
	case "id":
		if e.Name == "result" {
			if v, ok := c.env["result"]; ok {
				return v
			}
			if v, ok := c.env["result0"]; ok {
				return v
			}
		}
		v := c.lookupName(e.Name)
		if v == nil {
			return c.fail("unknown name %s", e.Name)
		}
		return v
	case "old":
		if c.old == nil {
			return c.fail("old() used where no old state exists")
		}
		c2 := *c
		c2.inOld = true
		return c2.eval(e.Args[0])
	case "un":
		if e.Name == "*" {
			p := c.eval(e.Args[0])
			if p.K == KPtr {
				t := c.typeOfPtrElem(p)
				if t != nil {
					return ex.loadPtr(c.st(), p, t)
				}
			}
			return c.fail("cannot dereference %s", e.Args[0].String())
		}
		cu := *c
		cu.goal = false
		x := cu.eval(e.Args[0])
		switch e.Name {
		case "!":
			if x.K == KScalar && x.T.Sort.K == SBool {
				return &Val{K: KScalar, Typ: x.Typ, T: Not(x.T)}
			}
		case "-":
			if x.K == KUntyped {
				return &Val{K: KUntyped, C: new(big.Int).Neg(x.C)}
			}
			if x.K == KScalar {
				return &Val{K: KScalar, Typ: x.Typ, T: Neg(x.T)}
			}
		case "^":
			if x.K == KUntyped {
				return &Val{K: KUntyped, C: new(big.Int).Not(x.C)}
			}
			if x.K == KScalar {
				return &Val{K: KScalar, Typ: x.Typ, T: BNot(x.T)}
			}
		}
		return c.fail("bad operand for unary %s in %s", e.Name, e.String())
	case "bin":
		return c.evalBin(e)
	case "ite":
		cg := *c
		cg.goal = false
		g := cg.bool(e.Args[0])
		a := c.eval(e.Args[1])
		b := c.eval(e.Args[2])
		if a.K == KUntyped && b.K == KScalar {
			a = ex.untypedTo(a, b)
		} else if b.K == KUntyped && a.K == KScalar {
			b = ex.untypedTo(b, a)
		} else if a.K == KUntyped && b.K == KUntyped {
			a, b = ex.coerceInt(a), ex.coerceInt(b)
		}
		return ex.iteNoName(g, a, b)
	case "sel":
		// package-qualified name
		if e.Args[0].Op == "id" {
			if _, isVal := c.env[e.Args[0].Name]; !isVal {
				if pp := ex.p.pkgPathByName(e.Args[0].Name); pp != "" && c.lookupNameQuiet(e.Args[0].Name) == nil {
					if v := c.pkgName(pp, e.Name); v != nil {
						return v
					}
					return c.fail("unknown package member %s.%s", e.Args[0].Name, e.Name)
				}
			}
		}
		// value selection on struct values first
		if p := c.addr(e); p != nil {
			t := c.typeOfPtrElem(p)
			if t == nil {
				return c.fail("cannot type %s", e.String())
			}
			return ex.loadPtr(c.st(), p, t)
		}
		x := c.eval(e.Args[0])
		if x.K == KStruct {
			if st, ok := under(x.Typ).(*types.Struct); ok {
				for i := 0; i < st.NumFields(); i++ {
					if st.Field(i).Name() == e.Name {
						return x.Fs[i]
					}
				}
			}
		}
		return c.fail("cannot select %s", e.String())
	case "idx":
		if p := c.addr(e); p != nil {
			t := c.typeOfPtrElem(p)
			if t != nil {
				return ex.loadPtr(c.st(), p, t)
			}
		}
		x := c.eval(e.Args[0])
		iv := ex.coerceInt(c.eval(e.Args[1]))
		if x.K == KArray && iv.K == KScalar {
			var et types.Type = x.Elem
			return ex.selectArr(x, ex.idx64(iv, iv.Typ), et)
		}
		return c.fail("cannot index %s", e.String())
	case "slice":
		x := c.eval(e.Args[0])
		if x.K != KSlice {
			if p := c.addr(e.Args[0]); p != nil {
				if at, ok := under(c.typeOfPtrElem(p)).(*types.Array); ok {
					x = &Val{K: KSlice, Typ: types.NewSlice(at.Elem()), IsNil: False, Tg: p.Tg, Off: BVConst(0, 64), Len: BVConst(at.Len(), 64), Cap: BVConst(at.Len(), 64)}
				}
			}
		}
		if x.K != KSlice {
			return c.fail("cannot slice %s", e.String())
		}
		lo := BVConst(0, 64)
		hi := x.Len
		if e.Args[1] != nil {
			lo = ex.idx64(ex.coerceInt(c.eval(e.Args[1])), types.Typ[types.Int])
		}
		if e.Args[2] != nil {
			hi = ex.idx64(ex.coerceInt(c.eval(e.Args[2])), types.Typ[types.Int])
		}
		return &Val{K: KSlice, Typ: x.Typ, IsNil: x.IsNil, Tg: x.Tg, Off: Add(x.Off, lo), Len: Sub(hi, lo), Cap: Sub(x.Cap, lo)}
	case "addr":
		p := c.addr(e.Args[0])
		if p == nil {
			return c.fail("cannot take address of %s", e.Args[0].String())
		}
		return p
	case "typeis":
		x := c.eval(e.Args[0])
		if x.K != KIface {
			return c.fail("typeis on non-interface %s", e.Args[0].String())
		}
		if e.Type == "other" {
			return &Val{K: KScalar, Typ: types.Typ[types.Bool], T: Eq(x.Tag, BVConst(tagOther, 16))}
		}
		t := ex.p.resolveType(c.pkg, e.Type)
		if t == nil {
			return c.fail("cannot resolve type %s", e.Type)
		}
		return &Val{K: KScalar, Typ: types.Typ[types.Bool], T: Eq(x.Tag, BVConst(int64(ex.p.typeTag(t)), 16))}
	case "assert":
		x := c.eval(e.Args[0])
		if x.K != KIface {
			return c.fail("type assertion on non-interface %s", e.Args[0].String())
		}
		if e.Type == "other" {
			if pv, ok := x.Cases["other"]; ok {
				return pv
			}
			return c.fail("no opaque case in %s", e.String())
		}
		t := ex.p.resolveType(c.pkg, e.Type)
		if t == nil {
			return c.fail("cannot resolve type %s", e.Type)
		}
		if pv, ok := x.Cases[typeKey(t)]; ok {
			return pv
		}
		// the interface value cannot have this dynamic type as far as the engine knows
		fv := ex.freshVal(t, "payload")
		if fv.K == KPtr {
			fv.IsNil = False
		}
		return fv
	case "forall", "exists":
		w := 64
		var bt types.Type = types.Typ[types.Int]
		if e.Type != "" && isBasicTypeName(e.Type) {
			bt = ex.p.basicType(e.Type)
			if ww, _, ok := intWidth(bt); ok {
				w = ww
			}
		}
		if c.goal && e.Op == "forall" && ex.expandQ {
			// package initializers: a quantifier over a constant range is expanded into its instances, so that
			// reads of tables initialised by composite literals fold to the constants that were stored
			if lo, hi, body, ok := constRange(e); ok && hi-lo <= 8192 {
				conj := True
				for k := lo; k < hi; k++ {
					c3 := *c
					c3.env = map[string]*Val{}
					for kk, v := range c.env {
						c3.env[kk] = v
					}
					c3.env[e.Name] = &Val{K: KScalar, Typ: bt, T: BVConst(k, w)}
					conj = And(conj, c3.bool(body))
				}
				return &Val{K: KScalar, Typ: types.Typ[types.Bool], T: conj}
			}
		}
		if c.goal && e.Op == "forall" {
			sk := ex.declare("sk."+e.Name, BV(w))
			ex.curSkolems = append(ex.curSkolems, sk)
			c3 := *c
			c3.env = map[string]*Val{}
			for k, v := range c.env {
				c3.env[k] = v
			}
			c3.env[e.Name] = &Val{K: KScalar, Typ: bt, T: sk}
			// no definitions may capture the skolem constant: the proved goal is later assumed universally
			ex.noName++
			bt2 := c3.bool(e.Args[0])
			ex.noName--
			return &Val{K: KScalar, Typ: types.Typ[types.Bool], T: bt2}
		}
		ex.ctr++
		bn := fmt.Sprintf("%s!q%d", sanitize(e.Name), ex.ctr)
		c2 := *c
		c2.goal = false
		c2.env = map[string]*Val{}
		for k, v := range c.env {
			c2.env[k] = v
		}
		c2.env[e.Name] = &Val{K: KScalar, Typ: bt, T: Var(bn, BV(w))}
		ex.noName++
		body := c2.bool(e.Args[0])
		ex.noName--
		q := Term{S: fmt.Sprintf("(%s ((%s %s)) %s)", e.Op, bn, BV(w).String(), body.S), Sort: BoolSort}
		if body.IsTrue() && e.Op == "forall" {
			q = True
		}
		return &Val{K: KScalar, Typ: types.Typ[types.Bool], T: q}
	case "call":
		return c.evalCall(e)
	case "star":
		return c.fail("[*] is only allowed in modifies clauses")
	}
	return c.fail("unsupported specification expression %s", e.String())
}

func (ex *Exec) iteNoName(g Term, a, b *Val) *Val {
	return ex.ite(g, a, b)
}

var binTok = map[string]token.Token{
	"+": token.ADD, "-": token.SUB, "*": token.MUL, "/": token.QUO, "%": token.REM,
	"&": token.AND, "|": token.OR, "^": token.XOR, "&^": token.AND_NOT, "<<": token.SHL, ">>": token.SHR,
	"==": token.EQL, "!=": token.NEQ, "<": token.LSS, "<=": token.LEQ, ">": token.GTR, ">=": token.GEQ,
}

func (c *SCtx) evalBin(e *SExpr) *Val {
	ex := c.ex
	boolT := types.Typ[types.Bool]
	switch e.Name {
	case "==>":
		cn := *c
		cn.goal = false
		a := cn.bool(e.Args[0])
		if a.IsFalse() {
			return &Val{K: KScalar, Typ: boolT, T: True}
		}
		return &Val{K: KScalar, Typ: boolT, T: Implies(a, c.bool(e.Args[1]))}
	case "&&":
		a := c.bool(e.Args[0])
		if a.IsFalse() {
			return &Val{K: KScalar, Typ: boolT, T: False}
		}
		return &Val{K: KScalar, Typ: boolT, T: And(a, c.bool(e.Args[1]))}
	case "||":
		a := c.bool(e.Args[0])
		if a.IsTrue() {
			return &Val{K: KScalar, Typ: boolT, T: True}
		}
		return &Val{K: KScalar, Typ: boolT, T: Or(a, c.bool(e.Args[1]))}
	}
	if c.goal {
		cn := *c
		cn.goal = false
		c = &cn
	}
	x := c.eval(e.Args[0])
	y := c.eval(e.Args[1])
	op := binTok[e.Name]
	if x.K == KUntyped && y.K == KUntyped {
		return foldUntyped(op, x.C, y.C)
	}
	isShift := op == token.SHL || op == token.SHR
	if x.K == KUntyped && y.K == KScalar && !isShift {
		x = ex.untypedTo(x, y)
	} else if x.K == KUntyped && isShift {
		x = ex.coerceInt(x)
	}
	if y.K == KUntyped && x.K == KScalar {
		if isShift {
			y = &Val{K: KScalar, Typ: types.Typ[types.Uint], T: BVConstBig(y.C, 64)}
		} else {
			y = ex.untypedTo(y, x)
		}
	}
	// nil comparisons
	if op == token.EQL || op == token.NEQ {
		var t Term
		ok := true
		switch {
		case x.K == KPtr && x.Typ == types.Typ[types.UntypedNil]:
			t, ok = isNilTerm(y)
		case y.K == KPtr && y.Typ == types.Typ[types.UntypedNil]:
			t, ok = isNilTerm(x)
		default:
			t, ok = ex.valEq(x, y)
		}
		if !ok {
			return c.fail("cannot compare in %s", e.String())
		}
		if op == token.NEQ {
			t = Not(t)
		}
		return &Val{K: KScalar, Typ: boolT, T: t}
	}
	if x.K != KScalar || y.K != KScalar {
		return c.fail("bad operands in %s", e.String())
	}
	if x.T.Sort != y.T.Sort && !isShift {
		return c.fail("operand width mismatch in %s (%v vs %v)", e.String(), x.T.Sort, y.T.Sort)
	}
	var rt types.Type = x.Typ
	if op == token.LSS || op == token.LEQ || op == token.GTR || op == token.GEQ {
		rt = boolT
	}
	xt, yt := x.Typ, y.Typ
	if xt == nil {
		xt = types.Typ[types.Int]
	}
	if yt == nil {
		yt = types.Typ[types.Int]
	}
	return ex.binop(c.fr, c.st(), op, x, y, xt, yt, rt, nil)
}

func isNilTerm(v *Val) (Term, bool) {
	switch v.K {
	case KPtr, KSlice, KFunc:
		return v.IsNil, true
	case KIface:
		return Eq(v.Tag, BVConst(0, 16)), true
	case KScalar:
		if isErrorType(v.Typ) {
			return Eq(v.T, BVConst(0, 32)), true
		}
	}
	return False, false
}

func foldUntyped(op token.Token, a, b *big.Int) *Val {
	r := new(big.Int)
	boolV := func(x bool) *Val { return &Val{K: KScalar, Typ: types.Typ[types.Bool], T: BoolConst(x)} }
	switch op {
	case token.ADD:
		r.Add(a, b)
	case token.SUB:
		r.Sub(a, b)
	case token.MUL:
		r.Mul(a, b)
	case token.QUO:
		if b.Sign() == 0 {
			return &Val{K: KOpaque}
		}
		r.Quo(a, b)
	case token.REM:
		if b.Sign() == 0 {
			return &Val{K: KOpaque}
		}
		r.Rem(a, b)
	case token.AND:
		r.And(a, b)
	case token.OR:
		r.Or(a, b)
	case token.XOR:
		r.Xor(a, b)
	case token.AND_NOT:
		r.AndNot(a, b)
	case token.SHL:
		r.Lsh(a, uint(b.Int64()))
	case token.SHR:
		r.Rsh(a, uint(b.Int64()))
	case token.EQL:
		return boolV(a.Cmp(b) == 0)
	case token.NEQ:
		return boolV(a.Cmp(b) != 0)
	case token.LSS:
		return boolV(a.Cmp(b) < 0)
	case token.LEQ:
		return boolV(a.Cmp(b) <= 0)
	case token.GTR:
		return boolV(a.Cmp(b) > 0)
	case token.GEQ:
		return boolV(a.Cmp(b) >= 0)
	}
	return &Val{K: KUntyped, C: r}
}

func (c *SCtx) evalCall(e *SExpr) *Val {
	ex := c.ex
	switch e.Name {
	case "len", "cap":
		if len(e.Args) != 1 {
			return c.fail("%s takes one argument", e.Name)
		}
		x := c.eval(e.Args[0])
		switch x.K {
		case KSlice:
			if e.Name == "len" {
				return &Val{K: KScalar, Typ: types.Typ[types.Int], T: x.Len}
			}
			return &Val{K: KScalar, Typ: types.Typ[types.Int], T: x.Cap}
		case KString:
			return &Val{K: KScalar, Typ: types.Typ[types.Int], T: x.Len}
		case KArray:
			if at, ok := under(x.Typ).(*types.Array); ok {
				return &Val{K: KScalar, Typ: types.Typ[types.Int], T: BVConst(at.Len(), 64)}
			}
		}
		if p := c.addr(e.Args[0]); p != nil {
			if at, ok := under(c.typeOfPtrElem(p)).(*types.Array); ok {
				return &Val{K: KScalar, Typ: types.Typ[types.Int], T: BVConst(at.Len(), 64)}
			}
		}
		return c.fail("len/cap of unsupported value %s", e.Args[0].String())
	case "atentry":
		if len(e.Args) != 1 {
			return c.fail("atentry takes one argument")
		}
		if c.loopPre == nil {
			return c.fail("atentry used outside a loop invariant")
		}
		c2 := *c
		c2.cur = c.loopPre
		c2.goal = false
		if c.fr != nil && len(c.env) > 0 {
			// in postconditions parameter names are bound to the entry values; inside atentry they denote
			// the variables (their value at the loop entry), as in loop invariants
			env2 := map[string]*Val{}
			for k, v := range c.env {
				env2[k] = v
			}
			for _, p := range c.fr.fn.Params {
				delete(env2, p.Name())
			}
			c2.env = env2
		}
		return c2.eval(e.Args[0])
	case "same":
		if len(e.Args) != 1 {
			return c.fail("same takes one argument")
		}
		a := c.eval(e.Args[0])
		c2 := *c
		c2.inOld = true
		b := c2.eval(e.Args[0])
		t, ok := ex.valEq(a, b)
		if !ok {
			return c.fail("same(%s): values are not comparable", e.Args[0].String())
		}
		return &Val{K: KScalar, Typ: types.Typ[types.Bool], T: t}
	case "ctz64", "clz64", "ctz32", "clz32":
		x := c.eval(e.Args[0])
		if x.K == KScalar && x.T.Sort.K == SBV {
			var t Term
			if strings.HasPrefix(e.Name, "ctz") {
				t = ctz(x.T)
			} else {
				t = clz(x.T)
			}
			return &Val{K: KScalar, Typ: types.Typ[types.Int], T: ZExt(t, 64)}
		}
		return c.fail("bad argument of %s", e.Name)
	case "iscorrupt":
		x := c.eval(e.Args[0])
		if x.K == KScalar && x.T.Sort == BV(32) {
			return &Val{K: KScalar, Typ: types.Typ[types.Bool], T: Eq(Extract(x.T, 31, 31), BVConst(1, 1))}
		}
		return c.fail("iscorrupt of non-error")
	case "sameobj":
		// sameobj(a, b): two slices/pointers refer to the same backing object
		a := c.eval(e.Args[0])
		b := c.eval(e.Args[1])
		var alts []Term
		for _, x := range a.Tg {
			for _, y := range b.Tg {
				if x.Loc.Obj == y.Loc.Obj && regionKey(x.Loc) == regionKey(y.Loc) {
					alts = append(alts, And(x.G, y.G))
				}
			}
		}
		return &Val{K: KScalar, Typ: types.Typ[types.Bool], T: Or(alts...)}
	}
	// conversions
	if isBasicTypeName(e.Name) && len(e.Args) == 1 {
		to := ex.p.basicType(e.Name)
		x := c.eval(e.Args[0])
		tw, _, tint := intWidth(to)
		if !tint {
			return c.fail("unsupported conversion to %s", e.Name)
		}
		if x.K == KUntyped {
			return &Val{K: KScalar, Typ: to, T: BVConstBig(x.C, tw)}
		}
		if x.K == KScalar && x.T.Sort.K == SBV {
			_, fs, _ := intWidth(x.Typ)
			var t Term
			if tw <= x.T.Sort.W {
				t = Extract(x.T, tw-1, 0)
			} else if fs {
				t = SExt(x.T, tw)
			} else {
				t = ZExt(x.T, tw)
			}
			return &Val{K: KScalar, Typ: to, T: t}
		}
		return c.fail("bad conversion %s", e.String())
	}
	if pf, ok := ex.p.cs.Pures[e.Name]; ok {
		if len(pf.Params) != len(e.Args) {
			return c.fail("pure %s expects %d arguments", e.Name, len(pf.Params))
		}
		env := map[string]*Val{}
		// quantifier-bound variables stay visible
		for k, v := range c.env {
			if strings.Contains(v.T.S, "!q") {
				env[k] = v
			}
		}
		for i, p := range pf.Params {
			a := c.eval(e.Args[i])
			if a.K == KUntyped && pf.PTypes[i] != "" && isBasicTypeName(pf.PTypes[i]) {
				bt := ex.p.basicType(pf.PTypes[i])
				if w, _, ok := intWidth(bt); ok {
					a = &Val{K: KScalar, Typ: bt, T: BVConstBig(a.C, w)}
				}
			}
			env[p] = a
		}
		// large scalar arguments are bound once with an SMT let instead of being repeated at
		// every use of the parameter in the body
		type letb struct{ v, def string }
		var lets []letb
		for _, p := range pf.Params {
			a := env[p]
			if a.K == KScalar && a.T.Const == nil && len(a.T.S) > 48 {
				if ex.noName == 0 {
					env[p] = &Val{K: KScalar, Typ: a.Typ, T: ex.name(a.T, "arg."+p)}
					continue
				}
				ex.letSeq++
				v := fmt.Sprintf("lv.%s.%d", p, ex.letSeq)
				lets = append(lets, letb{v, a.T.S})
				env[p] = &Val{K: KScalar, Typ: a.Typ, T: Term{S: v, Sort: a.T.Sort}}
			}
		}
		c2 := &SCtx{ex: ex, fr: nil, pkg: pf.Pkg, env: env, cur: c.cur, old: c.old, inOld: c.inOld, goal: c.goal, loopPre: c.loopPre}
		if c2.pkg == "" {
			c2.pkg = c.pkg
		}
		r := c2.eval(pf.Body)
		if len(lets) > 0 && r != nil {
			if r.K != KScalar {
				return c.fail("pure %s: non-scalar result with let-bound arguments", e.Name)
			}
			if r.T.Const == nil {
				var b strings.Builder
				b.WriteString("(let (")
				for _, l := range lets {
					fmt.Fprintf(&b, "(%s %s)", l.v, l.def)
				}
				b.WriteString(") ")
				b.WriteString(r.T.S)
				b.WriteString(")")
				r = &Val{K: KScalar, Typ: r.Typ, T: Term{S: b.String(), Sort: r.T.Sort}}
			}
		}
		return r
	}
	return c.fail("unknown function %s in specification", e.Name)
}

type conjunct struct {
	T    Term
	Text string
}

// conjuncts evaluates a boolean specification expression as a list of
// conjuncts (flattening && and unfolding pure functions whose body is a
// conjunction) so that each becomes its own obligation.
func (c *SCtx) conjuncts(e *SExpr) []conjunct {
	if e.Op == "bin" && e.Name == "&&" {
		return append(c.conjuncts(e.Args[0]), c.conjuncts(e.Args[1])...)
	}
	if e.Op == "bin" && e.Name == "==>" {
		rhs := c.conjuncts(e.Args[1])
		if len(rhs) > 1 {
			ca := *c
			ca.goal = false
			a := ca.bool(e.Args[0])
			for i := range rhs {
				rhs[i].T = Implies(a, rhs[i].T)
				rhs[i].Text = e.Args[0].String() + " ==> " + rhs[i].Text
			}
			return rhs
		}
	}
	if e.Op == "call" {
		if pf, ok := c.ex.p.cs.Pures[e.Name]; ok && len(pf.Params) == len(e.Args) && (pf.Body.Op == "bin" && (pf.Body.Name == "&&" || pf.Body.Name == "==>")) {
			env := map[string]*Val{}
			for k, v := range c.env {
				if strings.Contains(v.T.S, "!q") {
					env[k] = v
				}
			}
			for i, p := range pf.Params {
				a := c.eval(e.Args[i])
				if a.K == KUntyped && pf.PTypes[i] != "" && isBasicTypeName(pf.PTypes[i]) {
					bt := c.ex.p.basicType(pf.PTypes[i])
					if w, _, ok := intWidth(bt); ok {
						a = &Val{K: KScalar, Typ: bt, T: BVConstBig(a.C, w)}
					}
				}
				env[p] = a
			}
			c2 := &SCtx{ex: c.ex, pkg: pf.Pkg, env: env, cur: c.cur, old: c.old, inOld: c.inOld, goal: c.goal, loopPre: c.loopPre}
			if c2.pkg == "" {
				c2.pkg = c.pkg
			}
			cs := c2.conjuncts(pf.Body)
			for i := range cs {
				cs[i].Text = e.Name + ": " + cs[i].Text
			}
			return cs
		}
	}
	return []conjunct{{c.bool(e), e.String()}}
}

// goalCtx returns a context for evaluating an obligation's goal.
func (ex *Exec) goalCtx(fr *Frame, cur, old *State, env map[string]*Val) *SCtx {
	c := ex.rootCtx(fr, cur, old, env)
	c.goal = true
	return c
}

// latestAlloc returns the allocation of the local variable with the given name that is in scope at
// the frame's current block: its declaring block must dominate the current block; among several
// (shadowing, reuse of a name in sibling scopes) the innermost one wins, then the most recently executed.
func (fr *Frame) latestAlloc(name string) *ssa.Alloc {
	if os.Getenv("GOCV_DBGNAME") == name {
		for _, a := range fr.byName[name] {
			cb := -1
			if fr.curBlock != nil {
				cb = fr.curBlock.Index
			}
			fmt.Fprintf(os.Stderr, "latestAlloc(%s): alloc in block %d executed=%v cur=%d dom=%v\n", name, a.Block().Index, fr.allocs[a] != nil, cb, fr.curBlock != nil && a.Block().Dominates(fr.curBlock))
		}
	}
	var best *ssa.Alloc
	for _, a := range fr.byName[name] {
		if fr.allocs[a] == nil {
			continue
		}
		if fr.curBlock != nil && a.Block() != fr.curBlock && !a.Block().Dominates(fr.curBlock) {
			continue
		}
		if best == nil {
			best = a
			continue
		}
		switch {
		case best.Block() != a.Block() && best.Block().Dominates(a.Block()):
			best = a // a is declared in an inner scope
		case best.Block() != a.Block() && a.Block().Dominates(best.Block()):
		default:
			if fr.allocSeq[a] > fr.allocSeq[best] {
				best = a
			}
		}
	}
	return best
}


// constRange recognises  forall v :: c1 <= v && v < c2 ==> body  with integer literals c1, c2.
func constRange(e *SExpr) (lo, hi int64, body *SExpr, ok bool) {
	b := e.Args[0]
	if b.Op != "bin" || b.Name != "==>" {
		return
	}
	g := b.Args[0]
	if g.Op != "bin" || g.Name != "&&" {
		return
	}
	l, r := g.Args[0], g.Args[1]
	if l.Op != "bin" || l.Name != "<=" || l.Args[0].Op != "num" || l.Args[1].Op != "id" || l.Args[1].Name != e.Name {
		return
	}
	if r.Op != "bin" || r.Name != "<" || r.Args[1].Op != "num" || r.Args[0].Op != "id" || r.Args[0].Name != e.Name {
		return
	}
	return l.Args[0].Num.Int64(), r.Args[1].Num.Int64(), b.Args[1], true
}
