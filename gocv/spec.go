package main

// Specification expression language: Go expression syntax (Go operator
// precedence and Go semantics for machine integers) extended with
//   old(e)  result  forall x [T] :: e   exists x [T] :: e   a ==> b   c ? a : b
//   typeis(x, T)   x.(T)   &lvalue   same(e)  (e == old(e), deep)
// Parsed by a small recursive-descent parser into SExpr.

import (
	"fmt"
	"math/big"
	"strings"
	"unicode"
)

type SExpr struct {
	Op   string // "id","num","str","un","bin","call","sel","idx","slice","old","forall","exists","ite","assert","addr","typeis","star"
	Name string // identifier, operator, field name
	Num  *big.Int
	Args []*SExpr
	Type string // type text for typeis / assert / quantifier var
	Pos  int
	Src  string
}

func (e *SExpr) String() string {
	if e == nil {
		return "<nil>"
	}
	switch e.Op {
	case "id":
		return e.Name
	case "num":
		return e.Num.String()
	case "str":
		return fmt.Sprintf("%q", e.Name)
	case "un":
		return e.Name + e.Args[0].String()
	case "bin":
		return "(" + e.Args[0].String() + " " + e.Name + " " + e.Args[1].String() + ")"
	case "call":
		var a []string
		for _, x := range e.Args {
			a = append(a, x.String())
		}
		return e.Name + "(" + strings.Join(a, ", ") + ")"
	case "sel":
		return e.Args[0].String() + "." + e.Name
	case "idx":
		return e.Args[0].String() + "[" + e.Args[1].String() + "]"
	case "slice":
		s := e.Args[0].String() + "["
		if e.Args[1] != nil {
			s += e.Args[1].String()
		}
		s += ":"
		if e.Args[2] != nil {
			s += e.Args[2].String()
		}
		return s + "]"
	case "old":
		return "old(" + e.Args[0].String() + ")"
	case "forall", "exists":
		return e.Op + " " + e.Name + " " + e.Type + " :: " + e.Args[0].String()
	case "ite":
		return "(" + e.Args[0].String() + " ? " + e.Args[1].String() + " : " + e.Args[2].String() + ")"
	case "assert":
		return e.Args[0].String() + ".(" + e.Type + ")"
	case "addr":
		return "&" + e.Args[0].String()
	case "typeis":
		return "typeis(" + e.Args[0].String() + ", " + e.Type + ")"
	case "star":
		return e.Args[0].String() + "[*]"
	}
	return "?" + e.Op
}

type tok struct {
	k   string // "id","num","str","op","eof"
	s   string
	pos int
}

type specParser struct {
	src  string
	toks []tok
	p    int
}

func lexSpec(src string) ([]tok, error) {
	var toks []tok
	i := 0
	ops3 := []string{"==>", "&^=", "<<=", ">>="}
	ops2 := []string{"==", "!=", "<=", ">=", "&&", "||", "<<", ">>", "&^", "::", ".("}
	for i < len(src) {
		c := src[i]
		if c == ' ' || c == '\t' || c == '\n' {
			i++
			continue
		}
		if unicode.IsLetter(rune(c)) || c == '_' || c == '$' {
			j := i
			for j < len(src) && (unicode.IsLetter(rune(src[j])) || unicode.IsDigit(rune(src[j])) || src[j] == '_' || src[j] == '$') {
				j++
			}
			toks = append(toks, tok{"id", src[i:j], i})
			i = j
			continue
		}
		if unicode.IsDigit(rune(c)) {
			j := i
			for j < len(src) && (unicode.IsLetter(rune(src[j])) || unicode.IsDigit(rune(src[j])) || src[j] == '_') {
				j++
			}
			toks = append(toks, tok{"num", src[i:j], i})
			i = j
			continue
		}
		if c == '"' {
			j := i + 1
			for j < len(src) && src[j] != '"' {
				j++
			}
			if j >= len(src) {
				return nil, fmt.Errorf("unterminated string at %d", i)
			}
			toks = append(toks, tok{"str", src[i+1 : j], i})
			i = j + 1
			continue
		}
		matched := false
		for _, o := range ops3 {
			if strings.HasPrefix(src[i:], o) {
				toks = append(toks, tok{"op", o, i})
				i += len(o)
				matched = true
				break
			}
		}
		if matched {
			continue
		}
		for _, o := range ops2 {
			if strings.HasPrefix(src[i:], o) {
				toks = append(toks, tok{"op", o, i})
				i += len(o)
				matched = true
				break
			}
		}
		if matched {
			continue
		}
		if strings.ContainsRune("+-*/%&|^<>!()[]{}.,:?=", rune(c)) {
			toks = append(toks, tok{"op", string(c), i})
			i++
			continue
		}
		return nil, fmt.Errorf("unexpected character %q at %d in %q", c, i, src)
	}
	toks = append(toks, tok{"eof", "", len(src)})
	return toks, nil
}

func ParseSpec(src string) (e *SExpr, err error) {
	toks, err := lexSpec(src)
	if err != nil {
		return nil, err
	}
	p := &specParser{src: src, toks: toks}
	defer func() {
		if r := recover(); r != nil {
			if pe, ok := r.(parseErr); ok {
				err = fmt.Errorf("%s in %q", string(pe), src)
				return
			}
			panic(r)
		}
	}()
	e = p.expr()
	if p.peek().k != "eof" {
		p.fail("trailing input at '%s'", p.peek().s)
	}
	return e, nil
}

// ParseSpecList parses a comma-separated list of expressions (modifies clauses).
func ParseSpecList(src string) (es []*SExpr, err error) {
	toks, err := lexSpec(src)
	if err != nil {
		return nil, err
	}
	p := &specParser{src: src, toks: toks}
	defer func() {
		if r := recover(); r != nil {
			if pe, ok := r.(parseErr); ok {
				err = fmt.Errorf("%s in %q", string(pe), src)
				return
			}
			panic(r)
		}
	}()
	if p.peek().k == "eof" {
		return nil, nil
	}
	for {
		es = append(es, p.expr())
		if p.isOp(",") {
			p.next()
			continue
		}
		break
	}
	if p.peek().k != "eof" {
		p.fail("trailing input at '%s'", p.peek().s)
	}
	return es, nil
}

type parseErr string

func (p *specParser) fail(f string, a ...interface{}) {
	panic(parseErr(fmt.Sprintf(f, a...)))
}
func (p *specParser) peek() tok { return p.toks[p.p] }
func (p *specParser) next() tok  { t := p.toks[p.p]; p.p++; return t }
func (p *specParser) isOp(s string) bool {
	t := p.peek()
	return t.k == "op" && t.s == s
}
func (p *specParser) expect(s string) {
	if !p.isOp(s) {
		p.fail("expected '%s' but found '%s'", s, p.peek().s)
	}
	p.next()
}

func (p *specParser) expr() *SExpr {
	t := p.peek()
	if t.k == "id" && (t.s == "forall" || t.s == "exists") {
		p.next()
		v := p.next()
		if v.k != "id" {
			p.fail("expected bound variable")
		}
		typ := "int"
		if p.peek().k == "id" {
			typ = p.next().s
		}
		p.expect("::")
		body := p.expr()
		return &SExpr{Op: t.s, Name: v.s, Type: typ, Args: []*SExpr{body}}
	}
	return p.implies()
}

func (p *specParser) implies() *SExpr {
	l := p.ternary()
	if p.isOp("==>") {
		p.next()
		r := p.expr()
		return &SExpr{Op: "bin", Name: "==>", Args: []*SExpr{l, r}}
	}
	return l
}

func (p *specParser) ternary() *SExpr {
	c := p.binary(1)
	if p.isOp("?") {
		p.next()
		a := p.expr()
		p.expect(":")
		b := p.expr()
		return &SExpr{Op: "ite", Args: []*SExpr{c, a, b}}
	}
	return c
}

func prec(op string) int {
	switch op {
	case "||":
		return 1
	case "&&":
		return 2
	case "==", "!=", "<", "<=", ">", ">=":
		return 3
	case "+", "-", "|", "^":
		return 4
	case "*", "/", "%", "<<", ">>", "&", "&^":
		return 5
	}
	return 0
}

func (p *specParser) binary(min int) *SExpr {
	l := p.unary()
	for {
		t := p.peek()
		if t.k != "op" {
			return l
		}
		pr := prec(t.s)
		if pr == 0 || pr < min {
			return l
		}
		p.next()
		r := p.binary(pr + 1)
		l = &SExpr{Op: "bin", Name: t.s, Args: []*SExpr{l, r}}
	}
}

func (p *specParser) unary() *SExpr {
	t := p.peek()
	if t.k == "op" && (t.s == "!" || t.s == "-" || t.s == "^") {
		p.next()
		return &SExpr{Op: "un", Name: t.s, Args: []*SExpr{p.unary()}}
	}
	if t.k == "op" && t.s == "&" {
		p.next()
		return &SExpr{Op: "addr", Args: []*SExpr{p.unary()}}
	}
	return p.postfix()
}

// typeText consumes tokens forming a type up to (not including) the closing ')'.
func (p *specParser) typeText() string {
	var b strings.Builder
	depth := 0
	for {
		t := p.peek()
		if t.k == "eof" {
			p.fail("unterminated type")
		}
		if t.k == "op" && t.s == ")" && depth == 0 {
			break
		}
		if t.k == "op" && t.s == "(" {
			depth++
		}
		if t.k == "op" && t.s == ")" {
			depth--
		}
		b.WriteString(t.s)
		p.next()
	}
	return b.String()
}

func (p *specParser) postfix() *SExpr {
	e := p.primary()
	for {
		t := p.peek()
		if t.k != "op" {
			return e
		}
		switch t.s {
		case ".(":
			p.next()
			typ := p.typeText()
			p.expect(")")
			e = &SExpr{Op: "assert", Type: typ, Args: []*SExpr{e}}
		case ".":
			p.next()
			f := p.next()
			if f.k != "id" {
				p.fail("expected field name after '.'")
			}
			e = &SExpr{Op: "sel", Name: f.s, Args: []*SExpr{e}}
		case "[":
			p.next()
			if p.isOp("*") && p.toks[p.p+1].k == "op" && p.toks[p.p+1].s == "]" {
				p.next()
				p.next()
				e = &SExpr{Op: "star", Args: []*SExpr{e}}
				continue
			}
			var lo, hi *SExpr
			if !p.isOp(":") {
				lo = p.expr()
			}
			if p.isOp(":") {
				p.next()
				if !p.isOp("]") {
					hi = p.expr()
				}
				p.expect("]")
				e = &SExpr{Op: "slice", Args: []*SExpr{e, lo, hi}}
			} else {
				p.expect("]")
				e = &SExpr{Op: "idx", Args: []*SExpr{e, lo}}
			}
		case "(":
			if e.Op != "id" {
				p.fail("call of non-identifier")
			}
			p.next()
			if e.Name == "typeis" {
				x := p.expr()
				p.expect(",")
				typ := p.typeText()
				p.expect(")")
				e = &SExpr{Op: "typeis", Type: typ, Args: []*SExpr{x}}
				continue
			}
			var args []*SExpr
			if !p.isOp(")") {
				for {
					args = append(args, p.expr())
					if p.isOp(",") {
						p.next()
						continue
					}
					break
				}
			}
			p.expect(")")
			if e.Name == "old" {
				if len(args) != 1 {
					p.fail("old takes one argument")
				}
				e = &SExpr{Op: "old", Args: args}
			} else {
				e = &SExpr{Op: "call", Name: e.Name, Args: args}
			}
		default:
			return e
		}
	}
}

func (p *specParser) primary() *SExpr {
	t := p.next()
	switch t.k {
	case "id":
		return &SExpr{Op: "id", Name: t.s, Pos: t.pos}
	case "num":
		s := strings.ReplaceAll(t.s, "_", "")
		n := new(big.Int)
		if _, ok := n.SetString(s, 0); !ok {
			p.fail("bad number %s", t.s)
		}
		return &SExpr{Op: "num", Num: n}
	case "str":
		return &SExpr{Op: "str", Name: t.s}
	case "op":
		if t.s == "(" {
			e := p.expr()
			p.expect(")")
			return e
		}
		if t.s == "*" { // deref / deep marker in modifies: *b, **b
			x := p.unary()
			return &SExpr{Op: "un", Name: "*", Args: []*SExpr{x}}
		}
	}
	p.fail("unexpected token '%s'", t.s)
	return nil
}
