package main

// Assembly return-value obligations (asmreturns clauses). The Go code that dispatches on an integer
// status returned by an assembly routine is verified against the stub's contract; the part of that
// contract that says which status values exist is not assumed but established here, by a constant
// propagation over the assembly text of the routine:
//
//   - the routine is split into instructions with labels; control flow is fall-through, JMP, Jcc, RET;
//   - the abstract value of the register that is finally stored into RESULT+off(FP) is either a finite
//     set of constants or "unknown"; MOVQ $c, R gives {c}; XORQ R, R / XORL R, R gives {0}; every other
//     instruction whose destination is R gives unknown; joins are unions;
//   - at the store the set must be contained in the allowed constants.
//
// This is sound for the instruction forms it recognises as writing R (the destination is the last
// operand in Go assembler syntax; instructions with implicit destinations are listed below and make
// every tracked register unknown). It decides nothing about the other results.

import (
	"bufio"
	"fmt"
	"os"
	"path/filepath"
	"regexp"
	"sort"
	"strconv"
	"strings"
)

type asmInstr struct {
	line   int
	op     string
	ops    []string
	labels []string // labels attached to this instruction
	text   string
}

var labelRe = regexp.MustCompile(`^([A-Za-z_][A-Za-z_0-9]*):$`)
var regRe = regexp.MustCompile(`^[A-Z][A-Z0-9]*$`)

// implicit writers of AX/DX/CX etc.: anything here makes all tracked values unknown
var implicitWriters = map[string]bool{"MULQ": true, "MULL": true, "IMULQ": false, "DIVQ": true, "DIVL": true, "IDIVQ": true, "IDIVL": true,
	"CPUID": true, "XGETBV": true, "RDTSC": true, "CQO": true, "CDQ": true, "CALL": true, "SYSCALL": true, "MULXQ": false, "CMPXCHGQ": true, "CMPXCHGL": true,
	"REP": true, "STOSQ": true, "MOVSQ": true, "LODSQ": true, "POPQ": false, "XCHGQ": true, "XADDQ": true}

func readAsmFunc(path, fn string) (ins []asmInstr, err error) {
	f, err := os.Open(path)
	if err != nil {
		return nil, err
	}
	defer f.Close()
	sc := bufio.NewScanner(f)
	sc.Buffer(make([]byte, 1<<20), 1<<20)
	in := false
	ln := 0
	var pend []string
	for sc.Scan() {
		ln++
		t := sc.Text()
		if i := strings.Index(t, "//"); i >= 0 {
			t = t[:i]
		}
		t = strings.TrimSpace(t)
		if t == "" || strings.HasPrefix(t, "#") {
			continue
		}
		if m := textRe.FindStringSubmatch(t); m != nil {
			if in {
				break
			}
			in = m[1] == fn
			continue
		}
		if !in {
			continue
		}
		if strings.HasPrefix(t, "DATA ") || strings.HasPrefix(t, "GLOBL ") {
			continue
		}
		if m := labelRe.FindStringSubmatch(t); m != nil {
			pend = append(pend, m[1])
			continue
		}
		fs := strings.SplitN(t, " ", 2)
		i := asmInstr{line: ln, op: fs[0], labels: pend, text: t}
		pend = nil
		if len(fs) > 1 {
			i.ops = splitOperands(fs[1])
		}
		ins = append(ins, i)
	}
	return ins, nil
}

type constSet struct {
	top  bool
	vals map[int64]bool
	set  bool // reached
}

func (a *constSet) join(b constSet) bool {
	if !b.set {
		return false
	}
	if !a.set {
		a.set, a.top, a.vals = true, b.top, map[int64]bool{}
		for v := range b.vals {
			a.vals[v] = true
		}
		return true
	}
	ch := false
	if b.top && !a.top {
		a.top = true
		ch = true
	}
	for v := range b.vals {
		if !a.vals[v] {
			a.vals[v] = true
			ch = true
		}
	}
	return ch
}

func (a constSet) String() string {
	if a.top {
		return "unknown"
	}
	var vs []int64
	for v := range a.vals {
		vs = append(vs, v)
	}
	sort.Slice(vs, func(i, j int) bool { return vs[i] < vs[j] })
	return fmt.Sprint(vs)
}

func isJump(op string) bool { return strings.HasPrefix(op, "J") }

func noWrite(op string) bool {
	return strings.HasPrefix(op, "CMP") || strings.HasPrefix(op, "TEST") || isJump(op) || op == "RET" || strings.HasPrefix(op, "PREFETCH") ||
		(strings.HasPrefix(op, "BT") && len(op) == 3) || op == "NOP" || strings.HasPrefix(op, "VZERO")
}

// checkAsmReturn runs the constant propagation for one asmreturns clause.
func checkAsmReturn(repo, fn string, ar *AsmRet) (ok bool, detail string, assumptions []string) {
	var file string
	filepath.Walk(repo, func(path string, info os.FileInfo, e error) error {
		if e != nil || info.IsDir() || !strings.HasSuffix(path, ".s") || file != "" {
			return nil
		}
		b, _ := os.ReadFile(path)
		if strings.Contains(string(b), "TEXT ·"+fn+"(SB)") {
			file = path
		}
		return nil
	})
	if file == "" {
		return false, "no assembly text found for " + fn, nil
	}
	rel, _ := filepath.Rel(repo, file)
	ins, err := readAsmFunc(file, fn)
	if err != nil || len(ins) == 0 {
		return false, "cannot read the assembly of " + fn, nil
	}
	// the store(s) of the result
	var stores []int
	reg := ""
	for i, x := range ins {
		if len(x.ops) == 2 && strings.HasPrefix(x.op, "MOV") {
			if m := fpRe.FindStringSubmatch(x.ops[1]); m != nil && m[1] == ar.Result {
				if !regRe.MatchString(x.ops[0]) {
					if strings.HasPrefix(x.ops[0], "$") {
						continue // an immediate store is checked below
					}
					return false, fmt.Sprintf("%s:%d: %s is stored from %s, not from a register", rel, x.line, ar.Result, x.ops[0]), nil
				}
				if reg != "" && reg != x.ops[0] {
					return false, fmt.Sprintf("%s:%d: %s is stored from several registers", rel, x.line, ar.Result), nil
				}
				reg = x.ops[0]
				stores = append(stores, i)
			}
		}
	}
	if reg == "" {
		return false, fmt.Sprintf("%s: no store to %s+N(FP) found in %s", rel, ar.Result, fn), nil
	}
	labelAt := map[string]int{}
	for i, x := range ins {
		for _, l := range x.labels {
			labelAt[l] = i
		}
	}
	// jumps into the block of the (first) store, in text order, for the except list
	storeBlock := stores[0]
	for storeBlock > 0 && len(ins[storeBlock].labels) == 0 {
		storeBlock--
	}
	excluded := map[int]bool{} // instruction index of an excluded jump
	ord := 0
	for i, x := range ins {
		if isJump(x.op) && len(x.ops) == 1 {
			if t, ok := labelAt[x.ops[0]]; ok && t == storeBlock {
				ord++
				for _, e := range ar.Except {
					if e == ord {
						excluded[i] = true
						assumptions = append(assumptions, fmt.Sprintf("%s:%d: the jump `%s` (jump #%d into the block that stores %s) is assumed infeasible under the stub's precondition", rel, x.line, x.text, ord, ar.Result))
					}
				}
			}
		}
	}
	if len(assumptions) != len(ar.Except) {
		return false, fmt.Sprintf("%s: an `except` ordinal of the asmreturns clause of %s does not exist (%d jumps into the storing block)", rel, fn, ord), assumptions
	}
	in := make([]constSet, len(ins))
	in[0] = constSet{top: true, set: true, vals: map[int64]bool{}}
	work := []int{0}
	transfer := func(i int, v constSet) constSet {
		x := ins[i]
		out := constSet{set: true, top: v.top, vals: map[int64]bool{}}
		for k := range v.vals {
			out.vals[k] = true
		}
		if implicitWriters[x.op] {
			return constSet{set: true, top: true, vals: map[int64]bool{}}
		}
		if noWrite(x.op) || len(x.ops) == 0 {
			return out
		}
		dst := x.ops[len(x.ops)-1]
		// sub-registers of AX etc. do not occur in Go assembler syntax (AL is written AL): treat AL/AH/AX alike when tracking AX
		same := dst == reg || (reg == "AX" && (dst == "AL" || dst == "AH")) || (reg == "DX" && (dst == "DL" || dst == "DH")) || (reg == "CX" && (dst == "CL" || dst == "CH")) || (reg == "BX" && (dst == "BL" || dst == "BH"))
		if !same {
			return out
		}
		if (x.op == "MOVQ" || x.op == "MOVL") && len(x.ops) == 2 && strings.HasPrefix(x.ops[0], "$") {
			if c, err := strconv.ParseInt(strings.TrimPrefix(strings.TrimPrefix(x.ops[0], "$"), "+"), 0, 64); err == nil {
				if x.op == "MOVL" {
					c = int64(uint32(c))
				}
				return constSet{set: true, vals: map[int64]bool{c: true}}
			}
		}
		if (x.op == "XORQ" || x.op == "XORL") && len(x.ops) == 2 && x.ops[0] == reg && dst == reg {
			return constSet{set: true, vals: map[int64]bool{0: true}}
		}
		return constSet{set: true, top: true, vals: map[int64]bool{}}
	}
	for len(work) > 0 {
		i := work[len(work)-1]
		work = work[:len(work)-1]
		out := transfer(i, in[i])
		x := ins[i]
		var succ []int
		if x.op == "RET" {
			continue
		}
		if isJump(x.op) && len(x.ops) == 1 {
			if t, ok := labelAt[x.ops[0]]; ok {
				if !excluded[i] {
					succ = append(succ, t)
				}
			} else {
				return false, fmt.Sprintf("%s:%d: jump to an unknown label: %s", rel, x.line, x.text), assumptions
			}
			if x.op != "JMP" && i+1 < len(ins) {
				succ = append(succ, i+1)
			}
		} else if i+1 < len(ins) {
			succ = append(succ, i+1)
		}
		for _, s := range succ {
			if in[s].join(out) {
				work = append(work, s)
			}
		}
	}
	allowed := map[int64]bool{}
	for _, c := range ar.Allowed {
		allowed[c] = true
	}
	for _, s := range stores {
		v := in[s]
		if !v.set {
			continue
		}
		if v.top {
			// find one offending predecessor for the message
			return false, fmt.Sprintf("%s:%d: %s is stored from %s, whose value is not a known constant on every path (some path assigns it a computed value or none at all); allowed: %v", rel, ins[s].line, ar.Result, reg, ar.Allowed), assumptions
		}
		for c := range v.vals {
			if !allowed[c] {
				return false, fmt.Sprintf("%s:%d: %s can be %d, which the Go dispatch does not know (values reaching the store: %s; allowed: %v)", rel, ins[s].line, ar.Result, c, v.String(), ar.Allowed), assumptions
			}
		}
	}
	return true, fmt.Sprintf("%s: every path to the store of %s in %s assigns %s one of %v (reaching: %s)", rel, ar.Result, fn, reg, ar.Allowed, in[stores[0]].String()), assumptions
}

// runAsmReturns evaluates every asmreturns clause of the loaded contracts.
func runAsmReturns(repo string, cs *Contracts) (obls []layoutObl, assumptions []string) {
	var keys []string
	for k, c := range cs.Funcs {
		if len(c.AsmReturns) > 0 {
			keys = append(keys, k)
		}
	}
	sort.Strings(keys)
	for _, k := range keys {
		c := cs.Funcs[k]
		fn := k
		if i := strings.LastIndex(fn, "."); i >= 0 {
			fn = fn[i+1:]
		}
		for _, ar := range c.AsmReturns {
			ok, detail, as := checkAsmReturn(repo, fn, ar)
			obls = append(obls, layoutObl{Name: fmt.Sprintf("asmreturns[%s.%s]", fn, ar.Result), OK: ok, Detail: detail})
			assumptions = append(assumptions, as...)
		}
	}
	return
}
