package main

import (
	"fmt"
	"go/token"
	"go/types"

	"golang.org/x/tools/go/ssa"
)

func (ex *Exec) execInstr(fr *Frame, in ssa.Instruction, st *State) {
	switch i := in.(type) {
	case *ssa.DebugRef:
		return
	case *ssa.Alloc:
		o := fr.allocs[i]
		et := i.Type().(*types.Pointer).Elem()
		if o == nil {
			nm := i.Comment
			if nm == "" {
				nm = i.Name()
			}
			o = ex.newObj(nm, et)
			o.Fresh = true
			o.Local = !i.Heap
			fr.allocs[i] = o
		}
		fr.seqCtr++
		fr.allocSeq[i] = fr.seqCtr
		// (re)zero
		ex.zeroObj(st, o)
		fr.vals[i] = &Val{K: KPtr, Typ: i.Type(), IsNil: False, Tg: []Target{{G: True, Loc: Loc{Obj: o}}}}
	case *ssa.Store:
		p := ex.val(fr, i.Addr, st)
		v := ex.val(fr, i.Val, st)
		et := i.Addr.Type().Underlying().(*types.Pointer).Elem()
		ex.checkNil(fr, st, p, in)
		ex.checkFrame(fr, st, p, in)
		ex.storeVia(fr, st, p, v, et, in)
	case *ssa.UnOp:
		ex.unop(fr, i, st)
	case *ssa.BinOp:
		x := ex.val(fr, i.X, st)
		y := ex.val(fr, i.Y, st)
		ex.setVal(fr, i, ex.binop(fr, st, i.Op, x, y, i.X.Type(), i.Y.Type(), i.Type(), in))
	case *ssa.FieldAddr:
		p := ex.val(fr, i.X, st)
		ex.checkNil(fr, st, p, in)
		stt := i.X.Type().Underlying().(*types.Pointer).Elem().Underlying().(*types.Struct)
		r := &Val{K: KPtr, Typ: i.Type(), IsNil: False}
		if p.K != KPtr {
			ex.note("FieldAddr on unresolved pointer in %s", fr.key)
			fr.vals[i] = ex.freshVal(i.Type(), "fieldaddr")
			return
		}
		for _, t := range p.Tg {
			if t.Loc.Obj.Opaque {
				ex.note("field access into opaque object %s", t.Loc.Obj.Name)
				continue
			}
			r.Tg = append(r.Tg, Target{G: t.G, Loc: t.Loc.Field(i.Field, stt.Field(i.Field).Name())})
		}
		fr.vals[i] = r
	case *ssa.Field:
		x := ex.val(fr, i.X, st)
		if x.K == KStruct && i.Field < len(x.Fs) {
			fr.vals[i] = x.Fs[i.Field]
		} else {
			fr.vals[i] = ex.freshVal(i.Type(), "field")
		}
	case *ssa.IndexAddr:
		ex.indexAddr(fr, i, st)
	case *ssa.Index:
		x := ex.val(fr, i.X, st)
		idx := ex.idx64(ex.val(fr, i.Index, st), i.Index.Type())
		switch x.K {
		case KArray:
			n := under(i.X.Type()).(*types.Array).Len()
			ex.oblige(st, "bounds", fmt.Sprintf("bounds[%s]", ex.ordinalAt(fr, in)), ULt(idx, BVConst(n, 64)), nil, posOf(fr.fn, i.Pos()), "index in range")
			fr.vals[i] = ex.selectArr(x, idx, i.Type())
		case KString:
			ex.oblige(st, "bounds", fmt.Sprintf("bounds[%s]", ex.ordinalAt(fr, in)), ULt(idx, x.Len), nil, posOf(fr.fn, i.Pos()), "string index in range")
			fr.vals[i] = ex.freshVal(i.Type(), "strbyte")
		default:
			fr.vals[i] = ex.freshVal(i.Type(), "index")
		}
	case *ssa.Slice:
		ex.sliceOp(fr, i, st)
	case *ssa.Convert:
		ex.convert(fr, i, st)
	case *ssa.ChangeType:
		x := ex.val(fr, i.X, st)
		c := *x
		c.Typ = i.Type()
		fr.vals[i] = &c
	case *ssa.ChangeInterface:
		x := ex.val(fr, i.X, st)
		c := *x
		c.Typ = i.Type()
		fr.vals[i] = &c
	case *ssa.MakeInterface:
		x := ex.val(fr, i.X, st)
		fr.vals[i] = ex.makeIface(x, i.X.Type(), i.Type())
	case *ssa.TypeAssert:
		ex.typeAssert(fr, i, st)
	case *ssa.Extract:
		t := ex.val(fr, i.Tuple, st)
		if t.K == KTuple && i.Index < len(t.Fs) {
			fr.vals[i] = t.Fs[i.Index]
		} else {
			fr.vals[i] = ex.freshVal(i.Type(), "extract")
		}
	case *ssa.Phi:
		ins := fr.phiEdges[i.Block()]
		var res *Val
		for k := len(ins) - 1; k >= 0; k-- {
			e := ins[k]
			var v *Val
			for pi, p := range i.Block().Preds {
				if p == e.from {
					v = ex.val(fr, i.Edges[pi], st)
					break
				}
			}
			if v == nil {
				continue
			}
			if res == nil {
				res = v
			} else {
				res = ex.ite(e.st.pc, v, res)
			}
		}
		if res == nil {
			res = ex.freshVal(i.Type(), "phi")
		}
		ex.setVal(fr, i, res)
	case *ssa.Call:
		r := ex.call(fr, st, i)
		fr.vals[i] = r
	case *ssa.MakeSlice:
		l := ex.idx64(ex.val(fr, i.Len, st), i.Len.Type())
		c := ex.idx64(ex.val(fr, i.Cap, st), i.Cap.Type())
		ex.oblige(st, "bounds", fmt.Sprintf("makeslice[%s]", ex.ordinalAt(fr, in)), And(SLe(BVConst(0, 64), l), SLe(l, c)), nil, posOf(fr.fn, i.Pos()), "make: 0 <= len <= cap")
		et := under(i.Type()).(*types.Slice).Elem()
		o := ex.newObj(fmt.Sprintf("make%d", ex.objCtr+1), et)
		o.Backing = true
		o.Fresh = true
		fr.vals[i] = &Val{K: KSlice, Typ: i.Type(), IsNil: False, Off: BVConst(0, 64), Len: l, Cap: c, Tg: []Target{{G: True, Loc: Loc{Obj: o}}}}
	case *ssa.MakeClosure:
		v := &Val{K: KFunc, Typ: i.Type(), Fn: i.Fn, IsNil: False}
		for _, b := range i.Bindings {
			v.Bind = append(v.Bind, ex.val(fr, b, st))
		}
		fr.vals[i] = v
	case *ssa.RunDefers:
		return
	case *ssa.Defer, *ssa.Go, *ssa.Select, *ssa.Send:
		ex.note("unsupported instruction %T in %s", in, fr.key)
	case *ssa.Range:
		fr.vals[i] = &Val{K: KOpaque, Typ: i.Type()}
	case *ssa.Next:
		v := &Val{K: KTuple, Typ: i.Type()}
		tt := i.Type().(*types.Tuple)
		for k := 0; k < tt.Len(); k++ {
			v.Fs = append(v.Fs, ex.freshVal(tt.At(k).Type(), "next"))
		}
		fr.vals[i] = v
	case *ssa.MakeMap, *ssa.MapUpdate, *ssa.Lookup, *ssa.MakeChan:
		ex.note("unsupported instruction %T in %s", in, fr.key)
		if v, ok := in.(ssa.Value); ok {
			fr.vals[v] = ex.freshVal(v.Type(), "unsupported")
		}
	case *ssa.SliceToArrayPointer:
		ex.note("unsupported SliceToArrayPointer in %s", fr.key)
		fr.vals[i] = ex.freshVal(i.Type(), "s2a")
	default:
		ex.note("unhandled instruction %T in %s", in, fr.key)
		if v, ok := in.(ssa.Value); ok {
			fr.vals[v] = ex.freshVal(v.Type(), "unhandled")
		}
	}
}

func (ex *Exec) zeroObj(st *State, o *Obj) {
	for _, lf := range ex.objLeaves(o) {
		full := fmt.Sprintf("%d|%s", o.ID, lf.key)
		region := containsStar(lf.key)
		ex.cellMeta[full] = cellMeta{obj: o, key: lf.key, typ: lf.typ, region: region}
		if region {
			z := ex.zeroArr(lf.typ, nil)
			if z.K == KArray {
				st.cells[full] = z
			}
		} else {
			st.cells[full] = ex.zeroVal(lf.typ)
		}
	}
}

func containsStar(s string) bool {
	for i := 0; i+2 < len(s)+0; i++ {
		if s[i] == '[' && i+2 < len(s) && s[i+1] == '*' {
			return true
		}
	}
	return false
}

func (ex *Exec) checkNil(fr *Frame, st *State, p *Val, in ssa.Instruction) {
	if p.K != KPtr {
		return
	}
	ex.oblige(st, "nil", fmt.Sprintf("nil[%s:%s]", instrKind(in), ex.ordinalAt(fr, in)), Not(p.IsNil), nil, posOf(fr.fn, in.Pos()), "pointer is not nil")
}

func instrKind(in ssa.Instruction) string {
	switch in.(type) {
	case *ssa.Store:
		return "store"
	case *ssa.UnOp:
		return "load"
	case *ssa.FieldAddr:
		return "field"
	case *ssa.IndexAddr:
		return "index"
	case *ssa.Call:
		return "call"
	case *ssa.Slice:
		return "slice"
	}
	return "op"
}

func (ex *Exec) idx64(v *Val, t types.Type) Term {
	if v.K == KUntyped {
		return BVConstBig(v.C, 64)
	}
	if v.K != KScalar || v.T.Sort.K != SBV {
		return ex.declare("idx", BV(64))
	}
	_, signed, _ := intWidth(t)
	if signed {
		return SExt(v.T, 64)
	}
	return ZExt(v.T, 64)
}

func (ex *Exec) selectArr(x *Val, idx Term, t types.Type) *Val {
	if x.T.Valid() {
		sel := Select(x.T, idx)
		if isBool(t) {
			return &Val{K: KScalar, Typ: t, T: Ne(sel, BVConst(0, 8))}
		}
		return &Val{K: KScalar, Typ: t, T: sel}
	}
	if st, ok := under(t).(*types.Struct); ok && len(x.Fs) == st.NumFields() {
		v := &Val{K: KStruct, Typ: t}
		for i := range x.Fs {
			v.Fs = append(v.Fs, ex.selectArr(x.Fs[i], idx, st.Field(i).Type()))
		}
		return v
	}
	return ex.freshVal(t, "sel")
}

func (ex *Exec) unop(fr *Frame, i *ssa.UnOp, st *State) {
	x := ex.val(fr, i.X, st)
	switch i.Op {
	case token.MUL:
		ex.checkNil(fr, st, x, i)
		et := i.Type()
		fr.vals[i] = ex.loadVia(fr, st, x, et, i)
	case token.NOT:
		ex.setVal(fr, i, &Val{K: KScalar, Typ: i.Type(), T: Not(ex.boolTerm(x))})
	case token.SUB:
		if x.K == KScalar {
			ex.setVal(fr, i, &Val{K: KScalar, Typ: i.Type(), T: Neg(x.T)})
		} else {
			fr.vals[i] = ex.freshVal(i.Type(), "neg")
		}
	case token.XOR:
		if x.K == KScalar {
			ex.setVal(fr, i, &Val{K: KScalar, Typ: i.Type(), T: BNot(x.T)})
		} else {
			fr.vals[i] = ex.freshVal(i.Type(), "not")
		}
	default:
		ex.note("unsupported unary op %s", i.Op)
		fr.vals[i] = ex.freshVal(i.Type(), "unop")
	}
}

// loadVia loads type t through pointer p, handling multi-byte unsafe loads
// from byte regions.
func (ex *Exec) loadVia(fr *Frame, st *State, p *Val, t types.Type, in ssa.Instruction) *Val {
	if p.K != KPtr || len(p.Tg) == 0 {
		return ex.loadPtr(st, p, t)
	}
	// width-mismatched access (unsafe cast)
	w, _, isInt := intWidth(t)
	if isInt && len(p.Tg) > 0 {
		lt := ex.safeTypeAt(p.Tg[0].Loc)
		if lw, _, ok := intWidth(lt); ok && lw != w && lt != nil {
			return ex.multiLoad(fr, st, p, t, w, lw, in)
		}
	}
	return ex.loadPtr(st, p, t)
}

func (ex *Exec) safeTypeAt(l Loc) (t types.Type) {
	defer func() {
		if r := recover(); r != nil {
			t = nil
		}
	}()
	return ex.typeAt(l)
}

func (ex *Exec) multiLoad(fr *Frame, st *State, p *Val, t types.Type, w, lw int, in ssa.Instruction) *Val {
	if w < lw || w%lw != 0 {
		ex.note("unsupported narrowing unsafe load in %s", fr.key)
		return ex.freshVal(t, "unsafeload")
	}
	n := w / lw
	var res *Val
	for k := len(p.Tg) - 1; k >= 0; k-- {
		tg := p.Tg[k]
		if !tg.Loc.HasIdx() || !tg.HasLimit {
			ex.note("unsafe wide load from non-indexed location in %s", fr.key)
			return ex.freshVal(t, "unsafeload")
		}
		st2 := st
		ex.obligeG(st2, tg.G, "unsafe", fmt.Sprintf("unsafe%d[load:%s]", w/8, ex.ordinalAt(fr, in)), SLe(BVConst(int64(n), 64), tg.Limit), posOf(fr.fn, in.Pos()), fmt.Sprintf("%d-byte unsafe load stays inside the slice", w/8))
		var acc Term
		last := len(tg.Loc.Steps) - 1
		for j := 0; j < n; j++ {
			l2 := Loc{Obj: tg.Loc.Obj, Steps: append([]Step{}, tg.Loc.Steps...)}
			l2.Steps[last].Idx = Add(tg.Loc.Steps[last].Idx, BVConst(int64(j), 64))
			b := ex.loadLeaf(st, l2, ex.typeAt(l2))
			if b.K != KScalar {
				return ex.freshVal(t, "unsafeload")
			}
			if j == 0 {
				acc = b.T
			} else {
				acc = Concat(b.T, acc)
			}
		}
		v := &Val{K: KScalar, Typ: t, T: acc}
		if res == nil {
			res = v
		} else {
			res = ex.ite(tg.G, v, res)
		}
	}
	return res
}

func (ex *Exec) obligeG(st *State, g Term, kind, name string, goal Term, pos, text string) {
	ex.oblige(st, kind, name, Implies(g, goal), nil, pos, text)
}

func (ex *Exec) storeVia(fr *Frame, st *State, p *Val, v *Val, t types.Type, in ssa.Instruction) {
	if p.K == KPtr && len(p.Tg) > 0 {
		w, _, isInt := intWidth(t)
		if isInt {
			lt := ex.safeTypeAt(p.Tg[0].Loc)
			if lw, _, ok := intWidth(lt); ok && lw != w && lt != nil {
				ex.multiStore(fr, st, p, v, w, lw, in)
				return
			}
		}
	}
	ex.storePtr(st, p, v, t)
}

func (ex *Exec) multiStore(fr *Frame, st *State, p *Val, v *Val, w, lw int, in ssa.Instruction) {
	if w < lw || w%lw != 0 || v.K != KScalar {
		ex.note("unsupported unsafe store in %s", fr.key)
		return
	}
	n := w / lw
	for _, tg := range p.Tg {
		if !tg.Loc.HasIdx() || !tg.HasLimit {
			ex.note("unsafe wide store to non-indexed location in %s", fr.key)
			return
		}
		ex.obligeG(st, tg.G, "unsafe", fmt.Sprintf("unsafe%d[store:%s]", w/8, ex.ordinalAt(fr, in)), SLe(BVConst(int64(n), 64), tg.Limit), posOf(fr.fn, in.Pos()), fmt.Sprintf("%d-byte unsafe store stays inside the slice", w/8))
		last := len(tg.Loc.Steps) - 1
		for j := 0; j < n; j++ {
			l2 := Loc{Obj: tg.Loc.Obj, Steps: append([]Step{}, tg.Loc.Steps...)}
			l2.Steps[last].Idx = Add(tg.Loc.Steps[last].Idx, BVConst(int64(j), 64))
			bt := ex.typeAt(l2)
			piece := &Val{K: KScalar, Typ: bt, T: Extract(v.T, (j+1)*lw-1, j*lw)}
			if len(p.Tg) > 1 {
				old := ex.loadLeaf(st, l2, bt)
				piece = ex.ite(tg.G, piece, old)
			}
			ex.storeLeaf(st, l2, piece, bt)
		}
	}
}

func (ex *Exec) indexAddr(fr *Frame, i *ssa.IndexAddr, st *State) {
	x := ex.val(fr, i.X, st)
	idx := ex.idx64(ex.val(fr, i.Index, st), i.Index.Type())
	ord := ex.ordinalAt(fr, i)
	switch x.K {
	case KSlice:
		ex.oblige(st, "bounds", fmt.Sprintf("bounds[%s]", ord), ULt(idx, x.Len), nil, posOf(fr.fn, i.Pos()), "index < len")
		r := &Val{K: KPtr, Typ: i.Type(), IsNil: False}
		lim := ex.name(Sub(x.Len, idx), "lim")
		for _, t := range x.Tg {
			r.Tg = append(r.Tg, Target{G: t.G, Loc: t.Loc.Index(ex.name(Add(x.Off, idx), "ix"), arrLen(ex, t.Loc)), Limit: lim, HasLimit: true})
		}
		fr.vals[i] = r
	case KPtr:
		ex.checkNil(fr, st, x, i)
		at := i.X.Type().Underlying().(*types.Pointer).Elem().Underlying().(*types.Array)
		ex.oblige(st, "bounds", fmt.Sprintf("bounds[%s]", ord), ULt(idx, BVConst(at.Len(), 64)), nil, posOf(fr.fn, i.Pos()), "index < array length")
		r := &Val{K: KPtr, Typ: i.Type(), IsNil: False}
		lim := ex.name(Sub(BVConst(at.Len(), 64), idx), "lim")
		for _, t := range x.Tg {
			r.Tg = append(r.Tg, Target{G: t.G, Loc: t.Loc.Index(idx, at.Len()), Limit: lim, HasLimit: true})
		}
		fr.vals[i] = r
	default:
		ex.note("IndexAddr on unsupported value in %s", fr.key)
		fr.vals[i] = ex.freshVal(i.Type(), "indexaddr")
	}
}

func arrLen(ex *Exec, l Loc) int64 {
	t := ex.safeTypeAt(l)
	if t == nil {
		return 0
	}
	if a, ok := under(t).(*types.Array); ok {
		return a.Len()
	}
	return 0
}

func (ex *Exec) sliceOp(fr *Frame, i *ssa.Slice, st *State) {
	x := ex.val(fr, i.X, st)
	ord := ex.ordinalAt(fr, i)
	var lo, hi, max Term
	zero := BVConst(0, 64)
	if i.Low != nil {
		lo = ex.idx64(ex.val(fr, i.Low, st), i.Low.Type())
	} else {
		lo = zero
	}
	pos := posOf(fr.fn, i.Pos())
	switch x.K {
	case KSlice:
		if i.High != nil {
			hi = ex.idx64(ex.val(fr, i.High, st), i.High.Type())
		} else {
			hi = x.Len
		}
		if i.Max != nil {
			max = ex.idx64(ex.val(fr, i.Max, st), i.Max.Type())
		} else {
			max = x.Cap
		}
		g := And(SLe(zero, lo), SLe(lo, hi), SLe(hi, max), SLe(max, x.Cap))
		ex.oblige(st, "bounds", fmt.Sprintf("slice[%s]", ord), g, nil, pos, "0 <= low <= high <= cap")
		r := &Val{K: KSlice, Typ: i.Type(), IsNil: x.IsNil, Tg: x.Tg,
			Off: ex.name(Add(x.Off, lo), "so"), Len: ex.name(Sub(hi, lo), "sl"), Cap: ex.name(Sub(max, lo), "sc")}
		fr.vals[i] = r
	case KPtr:
		ex.checkNil(fr, st, x, i)
		at := i.X.Type().Underlying().(*types.Pointer).Elem().Underlying().(*types.Array)
		n := BVConst(at.Len(), 64)
		if i.High != nil {
			hi = ex.idx64(ex.val(fr, i.High, st), i.High.Type())
		} else {
			hi = n
		}
		if i.Max != nil {
			max = ex.idx64(ex.val(fr, i.Max, st), i.Max.Type())
		} else {
			max = n
		}
		g := And(SLe(zero, lo), SLe(lo, hi), SLe(hi, max), SLe(max, n))
		ex.oblige(st, "bounds", fmt.Sprintf("slice[%s]", ord), g, nil, pos, "0 <= low <= high <= len(array)")
		fr.vals[i] = &Val{K: KSlice, Typ: i.Type(), IsNil: False, Tg: x.Tg, Off: lo, Len: ex.name(Sub(hi, lo), "sl"), Cap: ex.name(Sub(max, lo), "sc")}
	case KString:
		if i.High != nil {
			hi = ex.idx64(ex.val(fr, i.High, st), i.High.Type())
		} else {
			hi = x.Len
		}
		g := And(SLe(zero, lo), SLe(lo, hi), SLe(hi, x.Len))
		ex.oblige(st, "bounds", fmt.Sprintf("slice[%s]", ord), g, nil, pos, "0 <= low <= high <= len(string)")
		fr.vals[i] = &Val{K: KString, Typ: i.Type(), Len: ex.name(Sub(hi, lo), "sl"), T: ex.declare("substr", BV(64))}
	default:
		ex.note("Slice of unsupported value in %s", fr.key)
		fr.vals[i] = ex.freshVal(i.Type(), "slice")
	}
}

func (ex *Exec) convert(fr *Frame, i *ssa.Convert, st *State) {
	x := ex.val(fr, i.X, st)
	from, to := i.X.Type(), i.Type()
	fw, fs, fint := intWidth(from)
	tw, _, tint := intWidth(to)
	_, isUintptrTo := under(to).(*types.Basic)
	isUintptrTo = isUintptrTo && under(to).(*types.Basic).Kind() == types.Uintptr
	switch {
	case x.K == KUintptr && isUnsafePointer(to):
		fr.vals[i] = ex.applyAddend(fr, st, x, i)
	case x.K == KUintptr && tint:
		fr.vals[i] = x
	case x.K == KPtr && isUintptrTo:
		fr.vals[i] = &Val{K: KUintptr, Typ: to, Base: x, Addend: BVConst(0, 64)}
	case x.K == KPtr:
		// *T <-> unsafe.Pointer <-> *U
		c := *x
		c.Typ = to
		fr.vals[i] = &c
	case fint && tint && x.K == KScalar:
		var t Term
		if tw <= fw {
			t = Extract(x.T, tw-1, 0)
		} else if fs {
			t = SExt(x.T, tw)
		} else {
			t = ZExt(x.T, tw)
		}
		ex.setVal(fr, i, &Val{K: KScalar, Typ: to, T: t})
	case x.K == KSlice && isString(to):
		fr.vals[i] = &Val{K: KString, Typ: to, Len: x.Len, T: ex.declare("str", BV(64))}
	case x.K == KString && under(to) != nil:
		if sl, ok := under(to).(*types.Slice); ok {
			o := ex.newObj("strbytes", sl.Elem())
			o.Backing = true
			o.Symbolic = true
			o.Fresh = true
			c := ex.declare("strcap", BV(64))
			ex.fact(And(SLe(x.Len, c), SLe(c, BVConst(1<<40, 64))))
			fr.vals[i] = &Val{K: KSlice, Typ: to, IsNil: False, Off: BVConst(0, 64), Len: x.Len, Cap: c, Tg: []Target{{G: True, Loc: Loc{Obj: o}}}}
			return
		}
		fr.vals[i] = ex.freshVal(to, "conv")
	default:
		if x.K != KOpaque {
			ex.note("unsupported conversion %s -> %s in %s", from, to, fr.key)
		}
		fr.vals[i] = ex.freshVal(to, "conv")
	}
}

// applyAddend turns uintptr(base)+addend back into a pointer: the byte addend
// is converted to an element offset of the last index step.
func (ex *Exec) applyAddend(fr *Frame, st *State, x *Val, in ssa.Instruction) *Val {
	b := x.Base
	r := &Val{K: KPtr, Typ: types.Typ[types.UnsafePointer], IsNil: False}
	for _, t := range b.Tg {
		if !t.Loc.HasIdx() {
			ex.note("pointer arithmetic on non-indexed location in %s", fr.key)
			return ex.freshVal(types.Typ[types.UnsafePointer], "ptrarith")
		}
		et := ex.safeTypeAt(t.Loc)
		if et == nil {
			return ex.freshVal(types.Typ[types.UnsafePointer], "ptrarith")
		}
		sz := sizes.Sizeof(et)
		add := x.Addend
		if sz != 1 {
			ex.oblige(st, "unsafe", fmt.Sprintf("align[%s]", ex.ordinalAt(fr, in)), Eq(URem(add, BVConst(sz, 64)), BVConst(0, 64)), nil, posOf(fr.fn, in.Pos()), "pointer arithmetic stays element aligned")
			add = UDiv(add, BVConst(sz, 64))
		}
		l2 := Loc{Obj: t.Loc.Obj, Steps: append([]Step{}, t.Loc.Steps...)}
		last := len(l2.Steps) - 1
		if !l2.Steps[last].IsIdx {
			ex.note("pointer arithmetic on field location in %s", fr.key)
			return ex.freshVal(types.Typ[types.UnsafePointer], "ptrarith")
		}
		nidx := ex.name(Add(l2.Steps[last].Idx, add), "pa")
		l2.Steps[last].Idx = nidx
		// an embedded array directly followed by an array field of the same element type:
		// the arithmetic may deliberately run on into the next field (histogram.distCode)
		if n := l2.Steps[last].N; n > 0 && last >= 1 && !l2.Steps[last-1].IsIdx {
			if nl, m, ok := ex.adjacentArray(l2, last); ok {
				total := BVConst(n+m, 64)
				ex.oblige(st, "unsafe", fmt.Sprintf("ptradd[%s]", ex.ordinalAt(fr, in)), And(SLe(BVConst(0, 64), nidx), SLt(nidx, total)), nil, posOf(fr.fn, in.Pos()), "pointer arithmetic stays inside the two adjacent arrays of the struct")
				inFirst := ex.name(SLt(nidx, BVConst(n, 64)), "pa1")
				r.Tg = append(r.Tg, Target{G: And(t.G, inFirst), Loc: l2, HasLimit: true, Limit: ex.name(Sub(BVConst(n, 64), nidx), "lim")})
				nl.Steps[len(nl.Steps)-1].Idx = ex.name(Sub(nidx, BVConst(n, 64)), "pa2")
				r.Tg = append(r.Tg, Target{G: And(t.G, Not(inFirst)), Loc: nl, HasLimit: true, Limit: ex.name(Sub(total, nidx), "lim")})
				continue
			}
		}
		nt := Target{G: t.G, Loc: l2, HasLimit: t.HasLimit}
		if t.HasLimit {
			nt.Limit = ex.name(Sub(t.Limit, add), "lim")
			// the addend must not be negative / beyond the limit: checked at the access via Limit (signed compare)
			ex.oblige(st, "unsafe", fmt.Sprintf("ptradd[%s]", ex.ordinalAt(fr, in)), And(SLe(BVConst(0, 64), add), SLe(add, t.Limit)), nil, posOf(fr.fn, in.Pos()), "pointer arithmetic stays inside the slice")
		}
		r.Tg = append(r.Tg, nt)
	}
	return r
}

func (ex *Exec) makeIface(x *Val, from, to types.Type) *Val {
	if isErrorType(to) || (x.K == KScalar && isErrorType(x.Typ)) {
		// concrete error value
		if x.K == KScalar && isErrorType(x.Typ) {
			return x
		}
		if tk := typeKey(from); tk == "compress/flate.CorruptInputError" && x.K == KScalar {
			return &Val{K: KScalar, Typ: to, T: Concat(BVConst(1, 1), Extract(x.T, 30, 0))}
		}
		e := ex.declare("err", BV(32))
		ex.fact(Ne(e, BVConst(0, 32)))
		return &Val{K: KScalar, Typ: to, T: e}
	}
	return &Val{K: KIface, Typ: to, Tag: BVConst(int64(ex.p.typeTag(from)), 16), Cases: map[string]*Val{typeKey(from): x}}
}

func (ex *Exec) typeAssert(fr *Frame, i *ssa.TypeAssert, st *State) {
	x := ex.val(fr, i.X, st)
	at := i.AssertedType
	var ok Term
	var res *Val
	if x.K != KIface {
		ex.note("type assertion on unsupported value in %s", fr.key)
		ok = ex.declare("taok", BoolSort)
		res = ex.freshVal(at, "ta")
	} else if it, isIface := under(at).(*types.Interface); isIface {
		var alts []Term
		for k := range x.Cases {
			if k == "other" {
				declared := false
				for _, o := range ex.p.cs.OtherImpl[typeKey(i.X.Type())] {
					if o == typeKey(at) {
						declared = true
					}
				}
				if declared {
					alts = append(alts, Eq(x.Tag, BVConst(tagOther, 16)))
					continue
				}
				u := ex.declare("implements", BoolSort)
				alts = append(alts, And(Eq(x.Tag, BVConst(tagOther, 16)), u))
				continue
			}
			ct := ex.p.namedTypes[k]
			if ct == nil {
				ct = ex.p.lookupTypeKey(k)
			}
			if ct != nil && types.Implements(ct, it) {
				alts = append(alts, Eq(x.Tag, BVConst(int64(ex.p.typeTag(ct)), 16)))
			}
		}
		ok = Or(alts...)
		c := *x
		c.Typ = at
		res = &c
	} else {
		ok = Eq(x.Tag, BVConst(int64(ex.p.typeTag(at)), 16))
		if pv, has := x.Cases[typeKey(at)]; has {
			res = pv
		} else {
			res = ex.freshVal(at, "ta")
			if res.K == KPtr {
				res.IsNil = False
			}
		}
	}
	ok = ex.name(ok, "taok")
	if i.CommaOk {
		zero := ex.zeroVal(at)
		rv := res
		if res.K == zero.K && res.K != KIface {
			rv = ex.ite(ok, res, zero)
		}
		fr.vals[i] = &Val{K: KTuple, Typ: i.Type(), Fs: []*Val{rv, {K: KScalar, Typ: types.Typ[types.Bool], T: ok}}}
		return
	}
	ex.oblige(st, "typeassert", fmt.Sprintf("typeassert[%s]", ex.ordinalAt(fr, i)), ok, nil, posOf(fr.fn, i.Pos()), "type assertion holds")
	fr.vals[i] = res
}

func (p *Prog) lookupTypeKey(k string) types.Type {
	star := 0
	for len(k) > 0 && k[0] == '*' {
		star++
		k = k[1:]
	}
	t := p.namedTypes[k]
	if t == nil {
		return nil
	}
	for ; star > 0; star-- {
		t = types.NewPointer(t)
	}
	return t
}

// adjacentArray: l ends in [field f][index]; if the struct's next field is an array of the
// same element type placed directly behind f, return the location pattern of its elements and its length.
func (ex *Exec) adjacentArray(l Loc, last int) (Loc, int64, bool) {
	parent := Loc{Obj: l.Obj, Steps: l.Steps[:last-1]}
	pt := ex.safeTypeAt(parent)
	if pt == nil {
		return Loc{}, 0, false
	}
	stt, ok := under(pt).(*types.Struct)
	if !ok {
		return Loc{}, 0, false
	}
	fi := l.Steps[last-1].Field
	if fi+1 >= stt.NumFields() {
		return Loc{}, 0, false
	}
	a1, ok1 := under(stt.Field(fi).Type()).(*types.Array)
	a2, ok2 := under(stt.Field(fi+1).Type()).(*types.Array)
	if !ok1 || !ok2 || !types.Identical(a1.Elem(), a2.Elem()) {
		return Loc{}, 0, false
	}
	var fields []*types.Var
	for i := 0; i < stt.NumFields(); i++ {
		fields = append(fields, stt.Field(i))
	}
	offs := sizes.Offsetsof(fields)
	if offs[fi+1] != offs[fi]+a1.Len()*sizes.Sizeof(a1.Elem()) {
		return Loc{}, 0, false
	}
	nl := parent.Field(fi+1, stt.Field(fi+1).Name()).Index(BVConst(0, 64), a2.Len())
	return nl, a2.Len(), true
}
