package main

// Layout obligations (C18, necessary conditions only): the displacements that the assembly files use
// off pointer arguments must equal the go/types (gc, amd64) offsets of the struct fields they were
// generated for, and the argument-frame offsets must equal the ABI0 layout of the Go stub signature.
//
// Assembly has no field names. The field a displacement denotes is therefore recorded once, from the
// pinned tree, in /verif/layout_manifest.json (function, parameter, displacement -> field path, size);
// on every run the current offsets of those field paths are recomputed from the current Go sources and
// compared with the displacements found in the current assembly text. A field inserted, reordered or
// resized without regenerating the assembly changes an offset and fails the obligation; a displacement
// that is not in the manifest is reported as unreviewed.

import (
	"bufio"
	"encoding/json"
	"fmt"
	"go/types"
	"os"
	"path/filepath"
	"regexp"
	"sort"
	"strconv"
	"strings"
)

type layoutEntry struct {
	File   string `json:"file"`
	Func   string `json:"func"`
	Param  string `json:"param"`
	Type   string `json:"type"`
	Disp   int64  `json:"disp"`
	Scale  int64  `json:"scale,omitempty"`
	Path   string `json:"path"`
	Size   int64  `json:"size"`
}

type asmUse struct {
	file, fn, param string
	disp, scale     int64
	line            int
	text            string
}

type asmArg struct {
	file, fn, name string
	off            int64
	line           int
}

var (
	textRe = regexp.MustCompile(`^TEXT\s+·([A-Za-z0-9_]+)\(SB\)`)
	fpRe   = regexp.MustCompile(`^([A-Za-z_][A-Za-z_0-9]*)\+(\d+)\(FP\)$`)
	memRe  = regexp.MustCompile(`^(-?\d*)\(([A-Z][A-Z0-9]*)\)(?:\(([A-Z][A-Z0-9]*)\*([1248])\))?$`)
)

func splitOperands(s string) []string {
	var out []string
	depth := 0
	cur := ""
	for _, r := range s {
		switch r {
		case '(':
			depth++
		case ')':
			depth--
		case ',':
			if depth == 0 {
				out = append(out, strings.TrimSpace(cur))
				cur = ""
				continue
			}
		}
		cur += string(r)
	}
	if strings.TrimSpace(cur) != "" {
		out = append(out, strings.TrimSpace(cur))
	}
	return out
}

// scanAsmLayout extracts, per assembly function, the displacements used off registers that hold a
// pointer argument, and the argument frame references.
func scanAsmLayout(repo string) (uses []asmUse, args []asmArg, err error) {
	err = filepath.Walk(repo, func(path string, info os.FileInfo, e error) error {
		if e != nil || info.IsDir() || !strings.HasSuffix(path, ".s") {
			return nil
		}
		rel, _ := filepath.Rel(repo, path)
		f, e2 := os.Open(path)
		if e2 != nil {
			return nil
		}
		defer f.Close()
		sc := bufio.NewScanner(f)
		sc.Buffer(make([]byte, 1<<20), 1<<20)
		fn := ""
		base := map[string]string{} // register -> parameter name
		ln := 0
		for sc.Scan() {
			ln++
			t := sc.Text()
			if i := strings.Index(t, "//"); i >= 0 {
				t = t[:i]
			}
			t = strings.TrimSpace(t)
			if t == "" || strings.HasPrefix(t, "#") {
				continue
			}
			if m := textRe.FindStringSubmatch(t); m != nil {
				fn = m[1]
				base = map[string]string{}
				continue
			}
			if strings.HasSuffix(t, ":") || fn == "" {
				// a label: control flow may join here; keep bases (the generated code loads them once at entry)
				continue
			}
			fs := strings.SplitN(t, " ", 2)
			op := fs[0]
			if len(fs) < 2 {
				continue
			}
			ops := splitOperands(fs[1])
			for _, o := range ops {
				if m := fpRe.FindStringSubmatch(o); m != nil {
					off, _ := strconv.ParseInt(m[2], 10, 64)
					args = append(args, asmArg{rel, fn, m[1], off, ln})
				}
				if m := memRe.FindStringSubmatch(o); m != nil {
					if p, ok := base[m[2]]; ok {
						var d, s int64
						if m[1] != "" {
							d, _ = strconv.ParseInt(m[1], 10, 64)
						}
						if m[4] != "" {
							s, _ = strconv.ParseInt(m[4], 10, 64)
						}
						uses = append(uses, asmUse{rel, fn, p, d, s, ln, t})
					}
				}
			}
			// destination register (last operand) overwritten?
			writes := !(strings.HasPrefix(op, "CMP") || strings.HasPrefix(op, "TEST") || strings.HasPrefix(op, "J") || op == "RET" || strings.HasPrefix(op, "BT") && len(op) == 3)
			if writes && len(ops) > 0 {
				dst := ops[len(ops)-1]
				if _, tracked := base[dst]; tracked {
					delete(base, dst)
				}
				// MOVQ param+off(FP), REG of a pointer parameter makes REG a base
				if op == "MOVQ" && len(ops) == 2 {
					if m := fpRe.FindStringSubmatch(ops[0]); m != nil && regexp.MustCompile(`^[A-Z][A-Z0-9]*$`).MatchString(dst) {
						base[dst] = m[1]
					}
				}
			}
		}
		return nil
	})
	return
}

type leaf struct {
	off, size int64
	path      string
}

func flattenLayout(t types.Type, off int64, path string, out *[]leaf) {
	switch u := under(t).(type) {
	case *types.Struct:
		var fields []*types.Var
		for i := 0; i < u.NumFields(); i++ {
			fields = append(fields, u.Field(i))
		}
		offs := sizes.Offsetsof(fields)
		for i, f := range fields {
			p := f.Name()
			if path != "" {
				p = path + "." + f.Name()
			}
			flattenLayout(f.Type(), off+offs[i], p, out)
		}
	case *types.Array:
		es := sizes.Sizeof(u.Elem())
		// record the array as one leaf (element accesses are resolved by arithmetic)
		*out = append(*out, leaf{off, es * u.Len(), path + "[]"})
		if _, ok := under(u.Elem()).(*types.Struct); ok && u.Len() <= 64 {
			for k := int64(0); k < u.Len(); k++ {
				flattenLayout(u.Elem(), off+k*es, fmt.Sprintf("%s[%d]", path, k), out)
			}
		}
	case *types.Slice:
		*out = append(*out, leaf{off, 8, path + ".ptr"}, leaf{off + 8, 8, path + ".len"}, leaf{off + 16, 8, path + ".cap"})
	case *types.Interface:
		*out = append(*out, leaf{off, 8, path + ".itab"}, leaf{off + 8, 8, path + ".data"})
	default:
		*out = append(*out, leaf{off, sizes.Sizeof(t), path})
	}
}

// resolveDisp finds the field path a displacement denotes in the current layout of t.
func resolveDisp(t types.Type, disp int64) (path string, size int64, ok bool) {
	var ls []leaf
	flattenLayout(t, 0, "", &ls)
	// prefer exact scalar leaves, then array interiors
	for _, l := range ls {
		if l.off == disp && !strings.HasSuffix(l.path, "[]") {
			return l.path, l.size, true
		}
	}
	for _, l := range ls {
		if strings.HasSuffix(l.path, "[]") && disp >= l.off && disp < l.off+l.size {
			return fmt.Sprintf("%s+%d", l.path, disp-l.off), l.size, true
		}
	}
	return "", 0, false
}

// offsetOfPath recomputes the offset of a recorded field path in the current layout.
func offsetOfPath(t types.Type, path string) (off int64, size int64, ok bool) {
	var ls []leaf
	flattenLayout(t, 0, "", &ls)
	extra := int64(0)
	p := path
	if i := strings.LastIndex(path, "[]+"); i >= 0 {
		extra, _ = strconv.ParseInt(path[i+3:], 10, 64)
		p = path[:i+2]
	}
	for _, l := range ls {
		if l.path == p {
			return l.off + extra, l.size, true
		}
	}
	return 0, 0, false
}

type layoutObl struct {
	Name, Detail string
	OK           bool
}

// stubSig finds the Go declaration (stub) of an assembly function.
func stubSig(p *Prog, fn string) (*types.Signature, string) {
	for k, f := range p.funcs {
		if f.Name() == fn && len(f.Blocks) == 0 && strings.HasPrefix(k, p.modulePath) {
			return f.Signature, k
		}
	}
	return nil, ""
}

// abi0Offsets computes name(+suffix) -> frame offset for a signature under ABI0.
func abi0Offsets(sig *types.Signature) map[string]int64 {
	out := map[string]int64{}
	off := int64(0)
	place := func(name string, t types.Type) {
		a := sizes.Alignof(t)
		off = (off + a - 1) / a * a
		switch u := under(t).(type) {
		case *types.Slice:
			out[name+"_base"] = off
			out[name+"_len"] = off + 8
			out[name+"_cap"] = off + 16
			out[name] = off
		case *types.Interface:
			out[name+"_type"] = off
			out[name+"_data"] = off + 8
			out[name] = off
		case *types.Basic:
			if u.Kind() == types.String {
				out[name+"_base"] = off
				out[name+"_len"] = off + 8
			}
			out[name] = off
		default:
			out[name] = off
		}
		off += sizes.Sizeof(t)
	}
	for i := 0; i < sig.Params().Len(); i++ {
		place(sig.Params().At(i).Name(), sig.Params().At(i).Type())
	}
	off = (off + 7) / 8 * 8
	for i := 0; i < sig.Results().Len(); i++ {
		n := sig.Results().At(i).Name()
		if n == "" {
			n = fmt.Sprintf("ret%d", i)
			if sig.Results().Len() == 1 {
				n = "ret"
			}
		}
		place(n, sig.Results().At(i).Type())
	}
	return out
}

func paramPointee(sig *types.Signature, name string) types.Type {
	for i := 0; i < sig.Params().Len(); i++ {
		if sig.Params().At(i).Name() == name {
			if pt, ok := under(sig.Params().At(i).Type()).(*types.Pointer); ok {
				return pt.Elem()
			}
		}
	}
	return nil
}

func runLayout(repo string, cs *Contracts, manifestPath string, generate bool) (obls []layoutObl, genErrs []string) {
	p, err := LoadProg(repo, "amd64", tagsFor("amd64"), cs)
	if err != nil {
		return nil, []string{err.Error()}
	}
	uses, args, err := scanAsmLayout(repo)
	if err != nil {
		return nil, []string{err.Error()}
	}
	// argument frame offsets
	seenArg := map[string]bool{}
	for _, a := range args {
		key := fmt.Sprintf("%s:%s:%s+%d", a.file, a.fn, a.name, a.off)
		if seenArg[key] {
			continue
		}
		seenArg[key] = true
		sig, _ := stubSig(p, a.fn)
		if sig == nil {
			obls = append(obls, layoutObl{Name: "layout[frame:" + key + "]", OK: false, Detail: "no Go stub declaration found for assembly function " + a.fn})
			continue
		}
		want, ok := abi0Offsets(sig)[a.name]
		obls = append(obls, layoutObl{Name: "layout[frame:" + key + "]", OK: ok && want == a.off,
			Detail: fmt.Sprintf("%s:%d: %s+%d(FP): ABI0 offset of %s in %s is %d (known=%v)", a.file, a.line, a.name, a.off, a.name, sig.String(), want, ok)})
	}
	// struct displacements
	var manifest []layoutEntry
	if !generate {
		b, err := os.ReadFile(manifestPath)
		if err != nil {
			return obls, []string{"cannot read layout manifest: " + err.Error()}
		}
		if err := json.Unmarshal(b, &manifest); err != nil {
			return obls, []string{"bad layout manifest: " + err.Error()}
		}
	}
	mkey := func(file, fn, param string, disp int64) string { return fmt.Sprintf("%s:%s:%s:%d", file, fn, param, disp) }
	byKey := map[string]layoutEntry{}
	for _, m := range manifest {
		byKey[mkey(m.File, m.Func, m.Param, m.Disp)] = m
	}
	seenUse := map[string]bool{}
	var gen []layoutEntry
	for _, u := range uses {
		k := mkey(u.file, u.fn, u.param, u.disp)
		if seenUse[k] {
			continue
		}
		seenUse[k] = true
		sig, _ := stubSig(p, u.fn)
		if sig == nil {
			continue
		}
		pt := paramPointee(sig, u.param)
		if pt == nil {
			continue // not a pointer parameter (e.g. a slice base pointer): not a struct access
		}
		if generate {
			path, size, ok := resolveDisp(pt, u.disp)
			if !ok {
				genErrs = append(genErrs, fmt.Sprintf("%s:%d: displacement %d off %s (%s) does not denote any field", u.file, u.line, u.disp, u.param, typeKey(pt)))
				continue
			}
			gen = append(gen, layoutEntry{File: u.file, Func: u.fn, Param: u.param, Type: typeKey(pt), Disp: u.disp, Scale: u.scale, Path: path, Size: size})
			continue
		}
		m, ok := byKey[k]
		name := fmt.Sprintf("layout[%s:%s:%d(%s)]", u.fn, u.param, u.disp, typeKey(pt))
		if !ok {
			obls = append(obls, layoutObl{Name: name, OK: false, Detail: fmt.Sprintf("%s:%d: displacement %d off %s is not in the layout manifest (unreviewed assembly access): %s", u.file, u.line, u.disp, u.param, u.text)})
			continue
		}
		off, size, found := offsetOfPath(pt, m.Path)
		obls = append(obls, layoutObl{Name: name, OK: found && off == u.disp && size == m.Size && typeKey(pt) == m.Type,
			Detail: fmt.Sprintf("%s:%d: %d(%s) was generated for field %s of %s (size %d); the current Go layout puts it at offset %d size %d (found=%v, type now %s)", u.file, u.line, u.disp, u.param, m.Path, m.Type, m.Size, off, size, found, typeKey(pt))})
	}
	if generate {
		sort.Slice(gen, func(i, j int) bool {
			if gen[i].File != gen[j].File {
				return gen[i].File < gen[j].File
			}
			if gen[i].Func != gen[j].Func {
				return gen[i].Func < gen[j].Func
			}
			if gen[i].Param != gen[j].Param {
				return gen[i].Param < gen[j].Param
			}
			return gen[i].Disp < gen[j].Disp
		})
		b, _ := json.MarshalIndent(gen, "", " ")
		os.WriteFile(manifestPath, append(b, '\n'), 0o644)
	}
	return obls, genErrs
}
