package main

import (
	"flag"
	"fmt"
	"os"
	"sort"
	"strings"
	"time"
)

var (
	repoDir    = "/repo"
	verifDir   = "/verif"
	externSpec = "/verif/gocv/extern.spec"
)

type cfgDef struct {
	name string
	tags string
}

var configs = []cfgDef{{"generic", "verif,noasmtest"}, {"amd64", "verif"}}

func main() {
	if v := os.Getenv("GOCV_EXTERN"); v != "" {
		externSpec = v // development aid: try an edited extern.spec without installing it
	}
	if len(os.Args) < 2 {
		fmt.Fprintln(os.Stderr, "usage: gocv verify|check|sweep|layout ...")
		os.Exit(2)
	}
	switch os.Args[1] {
	case "verify":
		cmdVerify(os.Args[2:])
	case "check":
		os.Exit(cmdCheck(os.Args[2:]))
	case "ssa":
		cmdSSA(os.Args[2:])
	case "layout-gen":
		cs, _ := LoadContracts(repoDir, externSpec)
		_, errs := runLayout(repoDir, cs, "/verif/layout_manifest.json", true)
		for _, e := range errs {
			fmt.Println("layout-gen:", e)
		}
	default:
		fmt.Fprintln(os.Stderr, "unknown command", os.Args[1])
		os.Exit(2)
	}
}

func cmdSSA(args []string) {
	fs := flag.NewFlagSet("ssa", flag.ExitOnError)
	cfg := fs.String("cfg", "generic", "configuration")
	repo := fs.String("repo", repoDir, "repository")
	fs.Parse(args)
	cs := NewContracts()
	p, err := LoadProg(*repo, *cfg, tagsFor(*cfg), cs)
	if err != nil {
		fmt.Fprintln(os.Stderr, err)
		os.Exit(2)
	}
	for _, name := range fs.Args() {
		for k, fn := range p.funcs {
			if k == name || strings.HasSuffix(k, name) {
				fn.WriteTo(os.Stdout)
			}
		}
		if strings.HasPrefix(name, "pkginit:") {
			for _, sp := range p.ssaProg.AllPackages() {
				if sp.Pkg.Path() == name[len("pkginit:"):] {
					sp.Func("init").WriteTo(os.Stdout)
				}
			}
		}
	}
}

func tagsFor(cfg string) string {
	for _, c := range configs {
		if c.name == cfg {
			return c.tags
		}
	}
	return "verif"
}

func cmdVerify(args []string) {
	fs := flag.NewFlagSet("verify", flag.ExitOnError)
	cfg := fs.String("cfg", "generic", "configuration")
	repo := fs.String("repo", repoDir, "repository")
	timeout := fs.Int("timeout", 10, "solver timeout (s)")
	show := fs.Bool("show", false, "print queries of failed obligations")
	dump := fs.String("dump", "", "write the query of the named obligation (substring) to stdout")
	all := fs.Bool("all", false, "verify every function under contract")
	fs.Parse(args)
	cs, err := LoadContracts(*repo, externSpec)
	if err != nil {
		fmt.Fprintln(os.Stderr, err)
		os.Exit(2)
	}
	for _, e := range cs.Errs {
		fmt.Println("CONTRACT ERROR:", e)
	}
	t0 := time.Now()
	p, err := LoadProg(*repo, *cfg, tagsFor(*cfg), cs)
	if err != nil {
		fmt.Fprintln(os.Stderr, err)
		os.Exit(2)
	}
	fmt.Printf("loaded %s in %.1fs (%d functions)\n", *cfg, time.Since(t0).Seconds(), len(p.funcs))
	var keys []string
	if *all {
		for k, c := range cs.Funcs {
			if !c.Trusted && !c.IsVar {
				keys = append(keys, k)
			}
		}
	}
	if *all {
		seen := map[string]bool{}
		for _, gi := range cs.GlobalInvs {
			if !seen[gi.Pkg] {
				seen[gi.Pkg] = true
				keys = append(keys, gi.Pkg+".init")
			}
		}
	}
	for _, a := range fs.Args() {
		found := false
		for k := range p.funcs {
			if k == a || (strings.Contains(k, modulePathDefault) && (strings.HasSuffix(k, "."+a) || strings.HasSuffix(k, a))) {
				keys = append(keys, k)
				found = true
			}
		}
		if !found {
			fmt.Println("no function matches", a)
		}
	}
	sort.Strings(keys)
	for _, k := range keys {
		fn := p.funcs[k]
		if fn == nil {
			fmt.Println("MISSING function for contract", k)
			continue
		}
		t1 := time.Now()
		r := VerifyFunc(p, fn)
		gen := time.Since(t1).Seconds()
		if *dump != "" {
			for _, o := range r.Obls {
				if strings.Contains(o.Name, *dump) {
					if dumpQF {
						fmt.Println(o.queryMode(true, true, os.Getenv("GOCV_DUMPQF") == "plain"))
					} else {
						fmt.Println(o.Query(true))
					}
					return
				}
			}
		}
		solveAll(r.Obls, *timeout, 16)
		ok, bad := 0, 0
		for _, o := range r.Obls {
			if o.Vacuity {
				if o.Status == "unsat" {
					bad++
					fmt.Printf("  VACUOUS %s\n", o.Name)
				}
				continue
			}
			if o.Status == "unsat" {
				ok++
				if o.Time > 3 && os.Getenv("GOCV_DEBUG") != "" {
					fmt.Printf("  slow %.1fs [%s] %s\n", o.Time, o.Solver, o.Name)
				}
			} else {
				bad++
				fmt.Printf("  FAIL %-8s %s  [%s %.2fs] %s  (%s)\n", o.Status, o.Name, o.Solver, o.Time, o.Text, o.Pos)
				if *show {
					fmt.Println(explainModel(o, *timeout))
				}
			}
		}
		fmt.Printf("%s: %d obligations, %d discharged, %d failed, gen %.2fs total %.2fs\n", describeFunc(k), ok+bad, ok, bad, gen, time.Since(t1).Seconds())
		for _, n := range r.Notes {
			fmt.Println("  note:", n)
		}
		for _, n := range r.SpecErrs {
			fmt.Println("  SPEC ERROR:", n)
		}
	}
}

func trimModel(m string) string {
	lines := strings.Split(m, "\n")
	var out []string
	for i := 0; i < len(lines); i++ {
		l := lines[i]
		if strings.Contains(l, "define-fun") && !strings.Contains(l, "!") {
			continue
		}
		out = append(out, l)
		if len(out) > 120 {
			break
		}
	}
	return strings.Join(out, "\n")
}

func init() {
	dumpQF = os.Getenv("GOCV_DUMPQF") != ""
}

var dumpQF bool
