package main

import (
	"fmt"
	"os"

	"golang.org/x/tools/go/packages"
	"golang.org/x/tools/go/ssa"
	"golang.org/x/tools/go/ssa/ssautil"
)

func main() {
	cfg := &packages.Config{Mode: packages.LoadAllSyntax, Dir: "/repo", BuildFlags: []string{"-tags=verif,noasmtest"}}
	pkgs, err := packages.Load(cfg, "./...")
	if err != nil {
		panic(err)
	}
	prog, spkgs := ssautil.AllPackages(pkgs, ssa.NaiveForm|ssa.GlobalDebug)
	prog.Build()
	for _, p := range spkgs {
		if p == nil {
			continue
		}
		for _, m := range p.Members {
			if f, ok := m.(*ssa.Function); ok && len(os.Args) > 1 && f.Name() == os.Args[1] {
				f.WriteTo(os.Stdout)
			}
		}
		fmt.Fprintln(os.Stderr, p.Pkg.Path())
	}
}
