package main

import (
	"fmt"
	"go/types"
	"strings"

	"golang.org/x/tools/go/ssa"
)

type FuncResult struct {
	Key      string
	Cfg      string
	Obls     []*Obligation
	Notes    []string
	SpecErrs []string
	Decls    []string
	Script   []string
	Trusted  []string
	Called   []string
	Missing  []string
	Assumes  int
}

func NewExec(p *Prog, fn *ssa.Function) *Exec {
	ex := &Exec{p: p, root: fn, rootKey: FuncKey(fn), entry: map[string]*Val{}, globals: map[*ssa.Global]*Obj{}, oblNames: map[string]int{},
		trustedUsed: map[string]bool{}, calledKeys: map[string]bool{}, cellMeta: map[string]cellMeta{}, assertsHit: map[string]bool{}, nogrowHit: map[int]bool{}}
	ex.ghost = ex.newObj("ghost", types.NewStruct(nil, nil))
	ex.ghost.Symbolic = true
	ex.ghost.Global = true
	return ex
}

func (ex *Exec) evalShape(sd *ShapeDecl, o *Obj, leaf types.Type, name string) *Val {
	ex.inEntry++
	defer func() { ex.inEntry-- }()
	self := &Val{K: KPtr, Typ: types.NewPointer(o.Typ), IsNil: False, Tg: []Target{{G: True, Loc: Loc{Obj: o}}}}
	pkg := ""
	if n, ok := types.Unalias(o.Typ).(*types.Named); ok && n.Obj().Pkg() != nil {
		pkg = n.Obj().Pkg().Path()
	}
	c := &SCtx{ex: ex, pkg: pkg, env: map[string]*Val{"self": self}, cur: NewState()}
	v := c.eval(sd.Expr)
	if v.K != KPtr {
		ex.specErr(fmt.Sprintf("shape %s.%s does not evaluate to a pointer", sd.TypeKey, sd.Field))
		return ex.freshVal(leaf, name)
	}
	r := *v
	r.Typ = leaf
	return &r
}

// VerifyFunc generates all obligations of one function under contract.
func VerifyFunc(p *Prog, fn *ssa.Function) (res *FuncResult) {
	ex := NewExec(p, fn)
	res = &FuncResult{Key: ex.rootKey, Cfg: p.cfgName}
	defer func() {
		if r := recover(); r != nil {
			res.Notes = append(res.Notes, fmt.Sprintf("engine panic: %v", r))
			res.SpecErrs = append(res.SpecErrs, fmt.Sprintf("engine failure while generating obligations: %v", r))
			res.Obls = ex.obls
			res.Decls, res.Script = ex.decls, ex.script
		}
	}()
	var args []*Val
	for _, prm := range fn.Params {
		v := ex.freshVal(prm.Type(), prm.Name())
		args = append(args, v)
	}
	if fn.Signature.Recv() != nil && len(args) > 0 && args[0].K == KPtr {
		args[0].IsNil = False
	}
	fr := ex.newFrame(fn, args, 0)
	fr.isRoot = true
	ex.stack = []string{fr.key}
	st := NewState()
	ex.oldState = NewState()
	ct := fr.contract
	isPkgInit := fn.Synthetic == "package initializer"
	if isPkgInit {
		// the initializer runs once: its guard is false on entry
		for _, m := range fn.Pkg.Members {
			if g, ok := m.(*ssa.Global); ok && g.Name() == "init$guard" {
				gv := ex.load(st, Loc{Obj: ex.globalObj(g)}, g.Type().(*types.Pointer).Elem())
				if gv.K == KScalar {
					ex.assume(True, Not(gv.T))
				}
			}
		}
		ex.pkgInitOf = fn.Pkg.Pkg.Path()
	} else {
		for _, gi := range p.cs.GlobalInvs {
			c := &SCtx{ex: ex, pkg: gi.Pkg, env: map[string]*Val{}, cur: st}
			ex.assume(True, c.bool(gi.Clause.Expr))
		}
	}
	if ct != nil {
		for _, c := range ct.Requires {
			if c.Cfg != "" && c.Cfg != p.cfgName {
				continue
			}
			g := ex.evalBool(fr, c.Expr, st, nil, ex.paramEnv(fr))
			ex.assume(True, g)
		}
		if ct.HasModifies {
			ex.hasMods = true
			c := ex.rootCtx(fr, st, nil, ex.paramEnv(fr))
			ex.rootMods = ex.evalMods(c, ct.Modifies)
		}
	}
	ex.preLen = len(ex.script)
	ex.runFrame(fr, st)
	// vacuity guard: the function's exit must be reachable under the assumptions
	if len(fr.rets) > 0 {
		var pcs []Term
		for _, r := range fr.rets {
			pcs = append(pcs, r.st.pc)
		}
		o := &Obligation{Name: ex.rootKey + "@" + p.cfgName + "#vacuity[exit]", Kind: "vacuity", Func: ex.rootKey, Cfg: p.cfgName,
			Goal: Not(Or(pcs...)), PC: True, ScriptLen: len(ex.script), Text: "some return is reachable (this goal must NOT be provable)", ex: ex, Vacuity: true}
		ex.obls = append(ex.obls, o)
	}
	if ct != nil {
		for k := range ct.NoGrow {
			if !ex.nogrowHit[k] {
				ex.missingLoop = append(ex.missingLoop, fmt.Sprintf("nogrow anchor: append #%d", k))
			}
		}
		for _, a := range ct.Asserts {
			if !ex.assertsHit[fmt.Sprintf("%s:%d", a.Callee, a.K)] {
				ex.missingLoop = append(ex.missingLoop, fmt.Sprintf("assert anchor: call %s #%d", a.Callee, a.K))
			}
		}
	}
	res.Obls = ex.obls
	res.Notes = ex.notes
	for _, s := range ex.staleInv {
		res.Notes = append(res.Notes, "stale-invariant: "+s)
	}
	res.SpecErrs = ex.specErrs
	res.Decls = ex.decls
	res.Script = ex.script
	res.Missing = ex.missingLoop
	res.Assumes = ex.assumes
	for k := range ex.trustedUsed {
		res.Trusted = append(res.Trusted, k)
	}
	for k := range ex.calledKeys {
		res.Called = append(res.Called, k)
	}
	return res
}

func (ex *Exec) paramEnv(fr *Frame) map[string]*Val {
	env := map[string]*Val{}
	if fr.contract != nil && len(fr.contract.ParamNames) > 0 {
		for i, n := range fr.contract.ParamNames {
			if i < len(fr.args) {
				env[n] = fr.args[i]
			}
		}
	}
	return env
}

func (ex *Exec) checkPost(fr *Frame, st *State, vs []*Val, k int, pos string) {
	ct := fr.contract
	if ex.pkgInitOf != "" {
		for i, gi := range ex.p.cs.GlobalInvs {
			if gi.Pkg != ex.pkgInitOf {
				continue
			}
			c := &SCtx{ex: ex, pkg: gi.Pkg, env: map[string]*Val{}, cur: st, goal: true}
			ex.expandQ = true
			cj := c.conjuncts(gi.Clause.Expr)
			ex.expandQ = false
			for j, x := range cj {
				nm := fmt.Sprintf("globalinv[%s]@return[%d]", clauseLabel(gi.Clause, i), k)
				if len(cj) > 1 {
					nm = fmt.Sprintf("globalinv[%s.%d]@return[%d]", clauseLabel(gi.Clause, i), j+1, k)
				}
				ex.oblige(st, "globalinv", nm, x.T, gi.Clause.Tags, pos, "globalinv "+x.Text)
			}
		}
	}
	if ct == nil {
		return
	}
	env := map[string]*Val{}
	// in postconditions parameter names denote the values at entry (as the caller sees them)
	for i, p := range fr.fn.Params {
		if i < len(fr.args) {
			env[p.Name()] = fr.args[i]
		}
	}
	for k, v := range ex.paramEnv(fr) {
		env[k] = v
	}
	rn := resultNames(fr.fn.Signature, ct)
	for i, v := range vs {
		if i < len(rn) {
			env[rn[i]] = v
		}
		env[fmt.Sprintf("result%d", i)] = v
		if i == 0 {
			env["result"] = v
		}
	}
	for i, c := range ct.Ensures {
		if c.AtReturn > 0 && c.AtReturn != k {
			continue
		}
		if c.Cfg != "" && c.Cfg != ex.p.cfgName {
			continue
		}
		gc := ex.goalCtx(fr, st, ex.oldState, env)
		if c.AtReturn > 0 {
			// atentry(e) in a return-specific clause: e at the entry of the innermost loop from which this
			// return site is reached
			gc.loopPre = ex.loopPreForReturn(fr)
		}
		cj := gc.conjuncts(c.Expr)
		for j, x := range cj {
			nm := fmt.Sprintf("post[%s]@return[%d]", clauseLabel(c, i), k)
			if len(cj) > 1 {
				nm = fmt.Sprintf("post[%s.%d]@return[%d]", clauseLabel(c, i), j+1, k)
			}
			ex.oblige(st, "post", nm, x.T, c.Tags, pos, "ensures "+x.Text)
		}
	}
}

func describeFunc(key string) string {
	return strings.TrimPrefix(key, modulePathDefault+"/")
}


// loopPreForReturn finds the loop a return site belongs to: walking predecessors backwards from the current
// block, the first block that lies in a loop body decides; among the loops containing it the innermost wins.
func (ex *Exec) loopPreForReturn(fr *Frame) *State {
	if fr.curBlock == nil {
		return nil
	}
	seen := map[*ssa.BasicBlock]bool{fr.curBlock: true}
	queue := []*ssa.BasicBlock{fr.curBlock}
	for len(queue) > 0 {
		b := queue[0]
		queue = queue[1:]
		var best *loopInfo
		for _, l := range fr.loops {
			if l.body[b] && l.pre != nil && (best == nil || len(l.body) < len(best.body)) {
				best = l
			}
		}
		if best != nil {
			return best.pre
		}
		for _, p := range b.Preds {
			if !seen[p] {
				seen[p] = true
				queue = append(queue, p)
			}
		}
	}
	return nil
}
