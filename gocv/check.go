package main

import (
	"sync"
	"bufio"
	"encoding/json"
	"flag"
	"fmt"
	"os"
	"path/filepath"
	"sort"
	"strings"
	"time"

	"golang.org/x/tools/go/ssa"
)

type finding struct {
	kind  string // "finding" or "fixed"
	prop  string
	obl   string // obligation name pattern (for findings)
	text  string
}

func loadFindings(path string) []finding {
	f, err := os.Open(path)
	if err != nil {
		return nil
	}
	defer f.Close()
	var out []finding
	sc := bufio.NewScanner(f)
	sc.Buffer(make([]byte, 1<<20), 1<<20)
	for sc.Scan() {
		l := strings.TrimSpace(sc.Text())
		if l == "" || strings.HasPrefix(l, "#") {
			continue
		}
		var fd finding
		switch {
		case strings.HasPrefix(l, "finding:"):
			fd.kind = "finding"
			l = strings.TrimSpace(l[len("finding:"):])
		case strings.HasPrefix(l, "fixed:"):
			fd.kind = "fixed"
			l = strings.TrimSpace(l[len("fixed:"):])
		default:
			continue
		}
		for _, f := range strings.Fields(l) {
			if strings.HasPrefix(f, "property=") {
				fd.prop = f[len("property="):]
			}
			if strings.HasPrefix(f, "obligation=") {
				fd.obl = f[len("obligation="):]
			}
		}
		fd.text = l
		out = append(out, fd)
	}
	return out
}

type evidence struct {
	PropertyID  string                 `json:"property_id"`
	Tier        string                 `json:"tier"`
	Seed        int                    `json:"seed"`
	Level       string                 `json:"level"`
	Coverage    map[string]interface{} `json:"coverage"`
	Assumptions []string               `json:"assumptions"`
	WallS       float64                `json:"wall_s"`
	Violations  int                    `json:"violations"`
}

type propPlan struct {
	ID    string
	Level string // "proof" or "other"
	Extra []string // extra engines: "sweep", "layout"
	Meta  []string // paper (meta) steps listed as assumptions
}

var standingAssumptions = []string{
	"GOARCH=amd64: int/uint/uintptr are 64-bit; all Go integers are modelled as bit-vectors of their exact width (wrap-around exact, nothing treated as mathematical)",
	"no object is larger than 2^40 elements; allocation succeeds; distinct make/new/composite-literal results are distinct objects",
	"heap shape: pointer, slice and interface fields of an instance point to objects owned by that instance, pairwise distinct unless a //@ shape declaration says otherwise; the caller's []byte arguments do not alias the instance's buffers",
	"contract-level havoc preserves the points-to shape: a callee under contract does not re-point pointer/slice/interface fields to objects the caller already holds (nil-ness, bounds and contents are unconstrained)",
	"callers do not use one instance from two goroutines or re-enter it from the destination/source callbacks",
	"termination is proved only where a decreases clause is listed; every other result is partial correctness",
	"trusted base: gocv itself (SSA->SMT translation, memory model, frame computation), go/ssa, go/types, types.SizesFor(gc,amd64), z3 4.8.12 / z3 5.1.0 / cvc5 1.0.3, the Go compiler and runtime",
	"assembly bodies are not verified: every assembly routine is an assumed contract (listed below when used)",
}

func cmdCheck(args []string) int {
	fs := flag.NewFlagSet("check", flag.ExitOnError)
	prop := fs.String("prop", "", "property id")
	tier := fs.String("tier", "quick", "quick|thorough")
	repo := fs.String("repo", repoDir, "repository")
	out := fs.String("evidence", "", "evidence file (default /verif/evidence/<prop>.json)")
	verbose := fs.Bool("v", false, "verbose")
	noEvidence := fs.Bool("no-evidence", false, "do not write evidence (self-test runs)")
	fs.Parse(args)
	if *prop == "" {
		fmt.Fprintln(os.Stderr, "check: --prop required")
		return 2
	}
	t0 := time.Now()
	seed := 0
	if s := os.Getenv("VERIF_SEED"); s != "" {
		fmt.Sscanf(s, "%d", &seed)
	}
	timeout := 60
	if *tier == "thorough" {
		timeout = 180
	}
	cs, err := LoadContracts(*repo, externSpec)
	if err != nil {
		fmt.Fprintln(os.Stderr, "gocv:", err)
		return 2
	}
	if *prop == "C17" {
		return checkSweep(*prop, *tier, *repo, cs, seed, *out, *noEvidence, t0)
	}
	r := runProperty(*prop, *tier, *repo, cs, timeout, *verbose)
	if *prop == "C18" {
		lobs, lerrs := runLayout(*repo, cs, filepath.Join(verifDir, "layout_manifest.json"), false)
		for _, l := range lobs {
			o := &Obligation{Name: l.Name, Kind: "layout", Tags: []string{"C18"}, Text: l.Detail, Status: "unsat", Solver: "gocv-layout (go/types offsets vs assembly text)"}
			if !l.OK {
				o.Status = "sat"
				o.Output = l.Detail
			}
			r.obls = append(r.obls, o)
			r.layout++
		}
		r.genErrors = append(r.genErrors, lerrs...)
	}
	if *prop == "C18" || *prop == "C03" {
		aobs, aas := runAsmReturns(*repo, cs)
		for _, l := range aobs {
			o := &Obligation{Name: l.Name, Kind: "asmreturns", Tags: []string{*prop}, Text: l.Detail, Status: "unsat", Solver: "gocv-asmret (constant propagation over the assembly text)"}
			if !l.OK {
				o.Status = "sat"
				o.Output = l.Detail
			}
			r.obls = append(r.obls, o)
			r.layout++
		}
		r.asmAssumptions = aas
	}
	r.wall = time.Since(t0).Seconds()
	code := r.report(*prop, *tier, seed, *out, *noEvidence)
	return code
}

type propRun struct {
	prop       string
	obls       []*Obligation
	funcs      map[string]bool // function@cfg verified
	genErrors  []string        // things that prevent obligation generation (reported as violations)
	notes      []string
	trusted    map[string]string
	wall       float64
	solverTime float64
	byBackend  map[string]int
	explain    []string
	extraObls  []*Obligation
	tier       string
	cachedDup  int
	layout     int
	asmAssumptions []string
	callers    []string // function@cfg outside the cone, generated only for the requires obligations at calls of root functions
}

func runProperty(prop, tier, repo string, cs *Contracts, timeout int, verbose bool) *propRun {
	r := &propRun{prop: prop, funcs: map[string]bool{}, trusted: map[string]string{}, byBackend: map[string]int{}, tier: tier}
	for _, e := range cs.Errs {
		r.genErrors = append(r.genErrors, "contract file: "+e)
	}
	// roots: functions with a clause tagged with the property
	roots := map[string]bool{}
	for k, c := range cs.Funcs {
		if c.IsVar {
			continue
		}
		tagged := false
		for _, cl := range append(append([]*Clause{}, c.Requires...), c.Ensures...) {
			for _, t := range cl.Tags {
				if t == prop {
					tagged = true
				}
			}
		}
		for _, a := range c.Asserts {
			for _, t := range a.Clause.Tags {
				if t == prop {
					tagged = true
				}
			}
		}
		for _, ls := range c.Loops {
			for _, cl := range ls.Invariants {
				for _, t := range cl.Tags {
					if t == prop {
						tagged = true
					}
				}
			}
		}
		if tagged {
			roots[k] = true
		}
	}
	type job struct {
		key string
		cfg string
	}
	// phase 1: obligation generation, the two build configurations side by side (each has its own program,
	// executor states and result lists; the contracts are read-only)
	type cfgOut struct {
		genErrors []string
		notes     []string
		trusted   map[string]string
		funcs     []string
		callers   []string
		obls      []*Obligation
		missing   []string // functions under contract that this configuration does not have
	}
	outs := make([]*cfgOut, len(configs))
	var wgc sync.WaitGroup
	for ci, cfg := range configs {
		ci, cfg := ci, cfg
		out := &cfgOut{trusted: map[string]string{}}
		outs[ci] = out
		wgc.Add(1)
		go func() {
			defer wgc.Done()
			p, err := LoadProg(repo, cfg.name, cfg.tags, cs)
			if err != nil {
				out.genErrors = append(out.genErrors, fmt.Sprintf("cannot load configuration %s: %v", cfg.name, err))
				return
			}
			work := []string{}
			for k := range roots {
				work = append(work, k)
			}
			sort.Strings(work)
			done := map[string]bool{}
			for len(work) > 0 {
				k := work[0]
				work = work[1:]
				if done[k] {
					continue
				}
				done[k] = true
				ct := cs.Funcs[k]
				isInit := false
				if ct == nil {
					if f0 := p.funcs[k]; f0 != nil && f0.Synthetic == "package initializer" && hasGlobalInv(cs, f0.Pkg.Pkg.Path()) {
						isInit = true
					} else {
						continue
					}
				}
				if !isInit && ct.Trusted {
					out.trusted[k] = ct.TrustedWhy
					continue
				}
				fn := p.funcs[k]
				if fn == nil {
					// reported after both configurations have been generated, unless the other one has the function
					// (closures and helpers of files with build constraints exist in one configuration only)
					out.missing = append(out.missing, k)
					continue
				}
				if len(fn.Blocks) == 0 {
					out.genErrors = append(out.genErrors, fmt.Sprintf("%s@%s: function under contract has no Go body and is not marked trusted", k, cfg.name))
					continue
				}
				if os.Getenv("GOCV_DEBUG") != "" {
					fmt.Fprintf(os.Stderr, "gen %s@%s\n", k, cfg.name)
				}
				res := VerifyFunc(p, fn)
				out.funcs = append(out.funcs, k+"@"+cfg.name)
				for _, e := range res.SpecErrs {
					out.genErrors = append(out.genErrors, fmt.Sprintf("%s@%s: %s", k, cfg.name, e))
				}
				for _, e := range res.Missing {
					out.genErrors = append(out.genErrors, fmt.Sprintf("%s@%s: contract refers to %s which does not exist in the function", k, cfg.name, e))
				}
				for _, n := range res.Notes {
					out.notes = append(out.notes, fmt.Sprintf("%s@%s: %s", k, cfg.name, n))
				}
				for _, t := range res.Trusted {
					if strings.HasPrefix(t, "assumes:") {
						out.trusted[t] = "postcondition assumed at call sites, not checked against the body"
						continue
					}
					if c := cs.Funcs[t]; c != nil {
						out.trusted[t] = c.TrustedWhy
					}
				}
				nonVac := 0
				for _, o := range res.Obls {
					if !o.Vacuity {
						nonVac++
					}
				}
				if nonVac == 0 {
					out.genErrors = append(out.genErrors, fmt.Sprintf("%s@%s: no obligation was generated (vacuous contract)", k, cfg.name))
				}
				out.obls = append(out.obls, res.Obls...)
				for _, c := range res.Called {
					if !done[c] {
						work = append(work, c)
					}
				}
				if fn.Pkg != nil && fn.Synthetic == "" {
					for _, gi := range cs.GlobalInvs {
						ik := gi.Pkg + ".init"
						if !done[ik] {
							work = append(work, ik)
						}
					}
				}
			}
			// The property's clauses on a root function are proved under the root's requires, so the requires
			// obligations at the root's call sites belong to the argument as well: generate the direct callers that
			// are under contract but outside the cone, and keep only those obligations.
			rootCall := []string{}
			rootName := map[string]bool{}
			for k := range roots {
				rootCall = append(rootCall, "@call["+shortFn(k)+":")
				if f0 := p.funcs[k]; f0 != nil {
					rootName[f0.Name()] = true
				}
			}
			var callers []string
			for k, ct := range cs.Funcs {
				if done[k] || ct.IsVar || ct.Trusted {
					continue
				}
				fn := p.funcs[k]
				if fn == nil || len(fn.Blocks) == 0 {
					continue
				}
				calls := false
				for _, b := range fn.Blocks {
					for _, in := range b.Instrs {
						c, ok := in.(*ssa.Call)
						if !ok {
							continue
						}
						com := c.Common()
						if com.IsInvoke() {
							calls = calls || rootName[com.Method.Name()]
						} else if f0, ok := com.Value.(*ssa.Function); ok {
							calls = calls || roots[FuncKey(f0)]
						}
					}
				}
				if calls {
					callers = append(callers, k)
				}
			}
			sort.Strings(callers)
			for _, k := range callers {
				res := VerifyFunc(p, p.funcs[k])
				n := 0
				for _, o := range res.Obls {
					if o.Kind != "pre" || o.Vacuity {
						continue
					}
					for _, rc := range rootCall {
						if strings.Contains(o.Name, rc) {
							out.obls = append(out.obls, o)
							n++
							break
						}
					}
				}
				if n > 0 {
					out.callers = append(out.callers, k+"@"+cfg.name)
					for _, e := range res.SpecErrs {
						out.genErrors = append(out.genErrors, fmt.Sprintf("%s@%s: %s", k, cfg.name, e))
					}
					for _, e := range res.Missing {
						out.genErrors = append(out.genErrors, fmt.Sprintf("%s@%s: contract refers to %s which does not exist in the function", k, cfg.name, e))
					}
				}
			}
		}()
	}
	wgc.Wait()
	// phase 2: merge in configuration order, share identical queries, discharge
	seenHash := map[string]*Obligation{}
	var batch []*Obligation
	for ci, out := range outs {
		for _, k := range out.missing {
			elsewhere := false
			for cj, other := range outs {
				for _, f := range other.funcs {
					if cj != ci && f == k+"@"+configs[cj].name {
						elsewhere = true
					}
				}
			}
			if !elsewhere {
				r.genErrors = append(r.genErrors, fmt.Sprintf("%s@%s: function under contract does not exist", k, configs[ci].name))
			}
		}
	}
	for _, out := range outs {
		r.genErrors = append(r.genErrors, out.genErrors...)
		r.notes = append(r.notes, out.notes...)
		for k, v := range out.trusted {
			r.trusted[k] = v
		}
		for _, f := range out.funcs {
			r.funcs[f] = true
		}
		r.callers = append(r.callers, out.callers...)
		for _, o := range out.obls {
			h := o.QueryHash()
			if prev, ok := seenHash[h]; ok {
				o.dupOf = prev
				r.cachedDup++
			} else if cd := os.Getenv("GOCV_CACHE"); cd != "" && !o.Vacuity && cacheHit(cd, h) {
				// development aid only (off unless GOCV_CACHE is set): an identical query was answered unsat before
				o.Status, o.Solver = "unsat", "cache"
				seenHash[h] = o
			} else {
				seenHash[h] = o
				batch = append(batch, o)
			}
			r.obls = append(r.obls, o)
		}
	}
	solveAll(batch, timeout, 16)
	if cd := os.Getenv("GOCV_CACHE"); cd != "" {
		for _, o := range batch {
			if o.Status == "unsat" && !o.Vacuity && o.Solver != "cache" {
				cachePut(cd, o.QueryHash())
			}
		}
	}
	for _, o := range r.obls {
		if o.dupOf != nil {
			o.Status, o.Solver, o.Output = o.dupOf.Status, o.dupOf.Solver, o.dupOf.Output
			o.Time = 0
		}
	}
	return r
}


func sanitizeFile(s string) string {
	var b strings.Builder
	for _, r := range s {
		if (r >= 'a' && r <= 'z') || (r >= 'A' && r <= 'Z') || (r >= '0' && r <= '9') || r == '.' || r == '-' || r == '_' {
			b.WriteRune(r)
		} else {
			b.WriteByte('_')
		}
	}
	x := b.String()
	if len(x) > 180 {
		x = x[len(x)-180:]
	}
	return x
}

func (r *propRun) report(prop, tier string, seed int, evPath string, noEvidence bool) int {
	findings := loadFindings(filepath.Join(verifDir, "known_findings.txt"))
	total, discharged := 0, 0
	var failed []*Obligation
	vacOK, vacBad := 0, 0
	tagged := 0
	for _, o := range r.obls {
		if o.Vacuity {
			if o.Status == "unsat" {
				vacBad++
				failed = append(failed, o)
			} else {
				vacOK++
			}
			continue
		}
		total++
		for _, t := range o.Tags {
			if t == prop {
				tagged++
			}
		}
		if o.Status == "unsat" {
			discharged++
			if o.dupOf == nil {
				r.byBackend[o.Solver]++
				r.solverTime += o.Time
			}
		} else {
			failed = append(failed, o)
		}
	}
	violations := 0
	known := 0
	otherOwned := 0 // failing check-only (nocall) clauses that are recorded findings of another property
	replayDir := filepath.Join(replayRoot(), prop)
	var lines []string
	for _, o := range failed {
		isKnown := false
		for _, f := range findings {
			if f.kind == "finding" && f.obl != "" && strings.Contains(o.Name, f.obl) {
				if f.prop != prop {
					// the finding belongs to another property: if its clause is tagged nocall (checked on the
					// function, never assumed by callers) it is not part of this property's cone
					if hasTag(o.Tags, "nocall") {
						isKnown = true
						otherOwned++
					}
					break
				}
				lines = append(lines, fmt.Sprintf("KNOWN-FINDING: property=%s %s", prop, strings.TrimSpace(strings.TrimPrefix(f.text, "property="+f.prop))))
				isKnown = true
				known++
				break
			}
		}
		if isKnown {
			continue
		}
		violations++
		os.MkdirAll(replayDir, 0o755)
		path := filepath.Join(replayDir, sanitizeFile(o.Name)+".json")
		rep := map[string]interface{}{
			"property": prop, "obligation": o.Name, "kind": o.Kind, "clause": o.Text, "position": o.Pos, "configuration": o.Cfg,
			"status": o.Status, "solver": o.Solver, "solver_output": truncate(o.Output, 20000), "tags": o.Tags,
		}
		suffix := " no-failing-input-found"
		if o.Vacuity {
			rep["explanation"] = "vacuity guard: the function's exit is unreachable under its assumptions (contradictory requires/assumed contracts)"
		} else if o.Kind == "layout" || o.Kind == "asmreturns" {
			rep["explanation"] = o.Text
		} else if o.Status == "sat" {
			m := modelFor(o, 20)
			rep["model"] = truncate(m, 60000)
			rep["replay"] = "not attempted: no replay generator for this obligation's pre-state (model attached)"
		}
		writeJSON(path, rep)
		lines = append(lines, fmt.Sprintf("VIOLATION property=%s replay=%s%s", prop, path, suffix))
	}
	for i, e := range r.genErrors {
		violations++
		os.MkdirAll(replayDir, 0o755)
		path := filepath.Join(replayDir, fmt.Sprintf("generation-error-%d.json", i+1))
		writeJSON(path, map[string]interface{}{"property": prop, "obligation": "generation", "explanation": e})
		lines = append(lines, fmt.Sprintf("VIOLATION property=%s replay=%s no-failing-input-found", prop, path))
	}
	if total == 0 && len(r.genErrors) == 0 {
		violations++
		lines = append(lines, fmt.Sprintf("VIOLATION property=%s replay=%s no-failing-input-found", prop, "none(no obligations generated: vacuous check)"))
	}
	sort.Strings(lines)
	for _, l := range lines {
		fmt.Println(l)
	}
	// evidence
	var fnames []string
	for k := range r.funcs {
		fnames = append(fnames, describeFunc(k))
	}
	sort.Strings(fnames)
	var assumed []string
	var tk []string
	for k := range r.trusted {
		tk = append(tk, k)
	}
	sort.Strings(tk)
	for _, k := range tk {
		assumed = append(assumed, fmt.Sprintf("assumed contract: %s (%s)", describeFunc(k), r.trusted[k]))
	}
	var samples []interface{}
	cnt := 0
	for _, o := range r.obls {
		if o.Vacuity || o.dupOf != nil {
			continue
		}
		isTagged := false
		for _, t := range o.Tags {
			if t == prop {
				isTagged = true
			}
		}
		if !isTagged {
			continue
		}
		qh := ""
		if o.ex != nil {
			qh = o.QueryHash()
		}
		samples = append(samples, map[string]interface{}{"obligation": o.Name, "clause": o.Text, "status": o.Status, "solver": o.Solver, "time_s": round3(o.Time), "query_hash": qh})
		cnt++
		if cnt >= 6 {
			break
		}
	}
	if len(samples) == 0 {
		for _, o := range r.obls {
			if !o.Vacuity {
				samples = append(samples, map[string]interface{}{"obligation": o.Name, "clause": o.Text, "status": o.Status, "solver": o.Solver, "time_s": round3(o.Time)})
				if len(samples) >= 4 {
					break
				}
			}
		}
	}
	sort.Strings(r.notes)
	level := "proof"
	if prop == "C18" {
		level = "other"
	}
	cov := map[string]interface{}{
		"layout_obligations": r.layout,
		// the proof claim covers every generated obligation except clauses recorded as known findings
		// (listed under known_failing / in known_findings.txt); a violation makes discharged < obligations
		"obligations":              total - known - otherOwned,
		"discharged":               discharged,
		"obligations_generated":    total,
		"obligations_tagged":       tagged,
		"duplicate_queries_shared": r.cachedDup,
		"checker_cmd":              fmt.Sprintf("/verif/bin/gocv check --prop %s --tier %s", prop, tier),
		"trusted_base":             []string{"gocv (this repository, /verif/gocv)", "golang.org/x/tools/go/ssa v0.29.0", "go/types", "z3 4.8.12", "z3 5.1.0", "cvc5 1.0.3"},
		"functions_under_contract": fnames,
		"callers_checked_for_root_preconditions": r.callers,
		"by_backend":               r.byBackend,
		"solver_time_s":            round3(r.solverTime),
		"known_failing":            known,
		"check_only_clauses_failing_as_findings_of_other_properties": otherOwned,
		"vacuity":                  map[string]int{"exits_reachable": vacOK, "vacuous_functions": vacBad},
		"engine_notes":             dedupe(r.notes),
		"samples":                  samples,
		"explanation":              "contract-based deductive verification: every obligation generated from the SSA of the current working tree (both build configurations) for the functions in the property's cone is discharged by an SMT solver; loops are cut by invariants, calls are replaced by callee contracts",
	}
	ev := evidence{PropertyID: prop, Tier: tier, Seed: seed, Level: level, Coverage: cov, Assumptions: append(append(append([]string{}, standingAssumptions...), assumed...), r.asmAssumptions...), WallS: round3(r.wall), Violations: violations}
	if !noEvidence {
		if evPath == "" {
			evPath = filepath.Join(verifDir, "evidence", prop+".json")
		}
		os.MkdirAll(filepath.Dir(evPath), 0o755)
		writeJSON(evPath, ev)
	}
	stale := 0
	for _, n := range r.notes {
		if strings.Contains(n, "stale-invariant: ") {
			stale++
			fmt.Printf("NOTE property=%s %s\n", prop, n)
		}
	}
	fmt.Printf("gocv: property %s tier %s: %d obligations, %d discharged, %d failing (%d known, %d check-only clauses recorded as findings of another property), %d generation errors, %d stale invariant conjuncts ignored, %d functions, %.1fs\n",
		prop, tier, total, discharged, len(failed), known, otherOwned, len(r.genErrors), stale, len(r.funcs), r.wall)
	if violations > 0 {
		return 1
	}
	return 0
}

func dedupe(xs []string) []string {
	var out []string
	seen := map[string]bool{}
	for _, x := range xs {
		if !seen[x] {
			seen[x] = true
			out = append(out, x)
		}
	}
	return out
}

func truncate(s string, n int) string {
	if len(s) > n {
		return s[:n] + "...[truncated]"
	}
	return s
}

func round3(f float64) float64 { return float64(int(f*1000+0.5)) / 1000 }

func writeJSON(path string, v interface{}) {
	b, _ := json.MarshalIndent(v, "", " ")
	os.WriteFile(path, append(b, '\n'), 0o644)
}

func hasGlobalInv(cs *Contracts, pkg string) bool {
	for _, gi := range cs.GlobalInvs {
		if gi.Pkg == pkg {
			return true
		}
	}
	return false
}

func checkSweep(prop, tier, repo string, cs *Contracts, seed int, evPath string, noEvidence bool, t0 time.Time) int {
	obls, genErrs, nfuncs, asmFiles, asmLines, asmBad := runSweep(repo, cs)
	findings := loadFindings(filepath.Join(verifDir, "known_findings.txt"))
	replayDir := filepath.Join(replayRoot(), prop)
	total, ok := 0, 0
	violations, known := 0, 0
	byKind := map[string]int{}
	var samples []interface{}
	for _, o := range obls {
		total++
		byKind[o.Kind]++
		if o.OK {
			ok++
			if len(samples) < 6 && (o.Kind == "arg" || o.Kind == "copy" || total%97 == 0) {
				samples = append(samples, map[string]interface{}{"obligation": o.Name, "position": o.Pos, "status": "discharged (provenance analysis)"})
			}
			continue
		}
		isKnown := false
		for _, f := range findings {
			if f.kind == "finding" && f.prop == prop && f.obl != "" && strings.Contains(o.Name, f.obl) {
				fmt.Printf("KNOWN-FINDING: property=%s %s\n", prop, f.text)
				isKnown = true
				known++
				break
			}
		}
		if isKnown {
			continue
		}
		violations++
		os.MkdirAll(replayDir, 0o755)
		path := filepath.Join(replayDir, sanitizeFile(o.Name)+".json")
		writeJSON(path, map[string]interface{}{"property": prop, "obligation": o.Name, "kind": o.Kind, "position": o.Pos, "configuration": o.Cfg, "explanation": o.Detail})
		fmt.Printf("VIOLATION property=%s replay=%s no-failing-input-found\n", prop, path)
	}
	for i, b := range asmBad {
		violations++
		os.MkdirAll(replayDir, 0o755)
		path := filepath.Join(replayDir, fmt.Sprintf("asm-sb-destination-%d.json", i+1))
		writeJSON(path, map[string]interface{}{"property": prop, "obligation": "asm-no-sb-destination", "explanation": b})
		fmt.Printf("VIOLATION property=%s replay=%s no-failing-input-found\n", prop, path)
	}
	for i, e := range genErrs {
		violations++
		os.MkdirAll(replayDir, 0o755)
		path := filepath.Join(replayDir, fmt.Sprintf("generation-error-%d.json", i+1))
		writeJSON(path, map[string]interface{}{"property": prop, "obligation": "generation", "explanation": e})
		fmt.Printf("VIOLATION property=%s replay=%s no-failing-input-found\n", prop, path)
	}
	if total == 0 {
		violations++
		fmt.Printf("VIOLATION property=%s replay=none(no obligations generated) no-failing-input-found\n", prop)
	}
	wall := time.Since(t0).Seconds()
	if len(samples) == 0 && len(obls) > 0 {
		samples = append(samples, map[string]interface{}{"obligation": obls[0].Name, "position": obls[0].Pos})
	}
	cov := map[string]interface{}{
		"obligations":              total + 1,
		"discharged":               ok + btoi(len(asmBad) == 0),
		"checker_cmd":              fmt.Sprintf("/verif/bin/gocv check --prop %s --tier %s", prop, tier),
		"trusted_base":             []string{"gocv provenance sweep (/verif/gocv/sweep.go)", "golang.org/x/tools/go/ssa v0.29.0", "go/types"},
		"functions_swept":          nfuncs,
		"obligations_by_kind":      byKind,
		"assembly_files_scanned":   asmFiles,
		"assembly_instructions":    asmLines,
		"assembly_sb_destinations": len(asmBad),
		"known_failing":            known,
		"samples":                  samples,
		"explanation":              "zero-annotation frame/provenance obligations over every function of the module in both build configurations: one obligation per store, copy/append destination, escaping reference, returned reference and reference argument; each is discharged when the written or escaping reference provably does not derive from a package-level variable (or the callee provably neither writes nor keeps it); plus one obligation for the textual scan of assembly files for (SB) destinations. Decided by a dataflow analysis over go/ssa, not by an SMT solver.",
	}
	ev := evidence{PropertyID: prop, Tier: tier, Seed: seed, Level: "proof", Coverage: cov, WallS: round3(wall), Violations: violations,
		Assumptions: []string{
			"sufficient condition only: instances that share no mutable state and do not write package-level state cannot interfere; determinism of each instance and the absence of goroutines inside the library are part of the swept facts; the composition to 'same bytes and errors as when run alone' and to race-freedom is a paper argument",
			"standard-library dependencies (bufio, hash/crc32 tables, hash/adler32, compress/flate) are assumed not to share mutable state between instances",
			"assembly routines are only scanned textually for data-symbol destinations; that they write only through their pointer arguments is assumed",
			"external functions on the read-only allowlist (crc32.Update, binary.*Endian.UintNN, ...) are assumed not to write through their arguments",
			"trusted base: the provenance analysis itself (sweep.go), go/ssa, go/types",
		}}
	if !noEvidence {
		if evPath == "" {
			evPath = filepath.Join(verifDir, "evidence", prop+".json")
		}
		os.MkdirAll(filepath.Dir(evPath), 0o755)
		writeJSON(evPath, ev)
	}
	fmt.Printf("gocv: property %s tier %s: %d sweep obligations over %d functions, %d discharged, %d violations (%d known), assembly: %d files %d instructions %d (SB) destinations, %.1fs\n",
		prop, tier, total, nfuncs, ok, violations, known, asmFiles, asmLines, len(asmBad), wall)
	if violations > 0 {
		return 1
	}
	return 0
}

func btoi(b bool) int {
	if b {
		return 1
	}
	return 0
}


// replayRoot is /verif/replays, or $VERIF_REPLAY_ROOT when another tree is being checked (must-fail corpus).
func replayRoot() string {
	if d := os.Getenv("VERIF_REPLAY_ROOT"); d != "" {
		return d
	}
	return filepath.Join(verifDir, "replays")
}


func cacheHit(dir, h string) bool {
	_, err := os.Stat(filepath.Join(dir, h[:2], h))
	return err == nil
}

func cachePut(dir, h string) {
	d := filepath.Join(dir, h[:2])
	os.MkdirAll(d, 0o755)
	os.WriteFile(filepath.Join(d, h), nil, 0o644)
}
