package main

// SMT term construction. Terms are SMT-LIB2 text plus a sort; light constant
// folding keeps guards that are statically true/false out of the queries and
// lets the executor take static decisions (e.g. "is this index constant").

import (
	"fmt"
	"math/big"
	"strings"
)

type SortKind int

const (
	SBool SortKind = iota
	SBV
	SArr // Array (BV64) -> (BV w)
)

type Sort struct {
	K SortKind
	W int // bit width for SBV, element width for SArr
}

func (s Sort) String() string {
	switch s.K {
	case SBool:
		return "Bool"
	case SBV:
		return fmt.Sprintf("(_ BitVec %d)", s.W)
	default:
		return fmt.Sprintf("(Array (_ BitVec 64) (_ BitVec %d))", s.W)
	}
}

var (
	BoolSort = Sort{SBool, 0}
)

func BV(w int) Sort  { return Sort{SBV, w} }
func Arr(w int) Sort { return Sort{SArr, w} }

type Term struct {
	S     string
	Sort  Sort
	Const *big.Int // non-nil for BV / Bool constants (Bool: 0/1)
}

func (t Term) String() string { return t.S }
func (t Term) IsConst() bool  { return t.Const != nil }
func (t Term) IsTrue() bool   { return t.Sort.K == SBool && t.Const != nil && t.Const.Sign() != 0 }
func (t Term) IsFalse() bool  { return t.Sort.K == SBool && t.Const != nil && t.Const.Sign() == 0 }
func (t Term) Valid() bool    { return t.S != "" }

var (
	True  = Term{"true", BoolSort, big.NewInt(1)}
	False = Term{"false", BoolSort, big.NewInt(0)}
)

func mask(w int) *big.Int {
	m := new(big.Int).Lsh(big.NewInt(1), uint(w))
	return m.Sub(m, big.NewInt(1))
}

func BVConstBig(v *big.Int, w int) Term {
	x := new(big.Int).And(v, mask(w))
	if v.Sign() < 0 {
		x = new(big.Int).Mod(v, new(big.Int).Lsh(big.NewInt(1), uint(w)))
	}
	return Term{fmt.Sprintf("(_ bv%s %d)", x.String(), w), BV(w), x}
}

func BVConst(v int64, w int) Term  { return BVConstBig(big.NewInt(v), w) }
func BVConstU(v uint64, w int) Term { return BVConstBig(new(big.Int).SetUint64(v), w) }

func BoolConst(b bool) Term {
	if b {
		return True
	}
	return False
}

func Var(name string, s Sort) Term { return Term{name, s, nil} }

func app(s Sort, op string, args ...Term) Term {
	var b strings.Builder
	b.WriteByte('(')
	b.WriteString(op)
	for _, a := range args {
		b.WriteByte(' ')
		b.WriteString(a.S)
	}
	b.WriteByte(')')
	return Term{b.String(), s, nil}
}

func signed(v *big.Int, w int) *big.Int {
	if v.Bit(w-1) == 1 {
		return new(big.Int).Sub(v, new(big.Int).Lsh(big.NewInt(1), uint(w)))
	}
	return new(big.Int).Set(v)
}

func Not(a Term) Term {
	if a.IsTrue() {
		return False
	}
	if a.IsFalse() {
		return True
	}
	if strings.HasPrefix(a.S, "(not ") {
		return Term{a.S[5 : len(a.S)-1], BoolSort, nil}
	}
	return app(BoolSort, "not", a)
}

func And(xs ...Term) Term {
	var ys []Term
	for _, x := range xs {
		if x.IsFalse() {
			return False
		}
		if x.IsTrue() {
			continue
		}
		dup := false
		for _, y := range ys {
			if y.S == x.S {
				dup = true
			}
		}
		if !dup {
			ys = append(ys, x)
		}
	}
	if len(ys) == 0 {
		return True
	}
	if len(ys) == 1 {
		return ys[0]
	}
	return app(BoolSort, "and", ys...)
}

func Or(xs ...Term) Term {
	var ys []Term
	for _, x := range xs {
		if x.IsTrue() {
			return True
		}
		if x.IsFalse() {
			continue
		}
		dup := false
		for _, y := range ys {
			if y.S == x.S {
				dup = true
			}
		}
		if !dup {
			ys = append(ys, x)
		}
	}
	if len(ys) == 0 {
		return False
	}
	if len(ys) == 1 {
		return ys[0]
	}
	return app(BoolSort, "or", ys...)
}

func Implies(a, b Term) Term {
	if a.IsTrue() {
		return b
	}
	if a.IsFalse() || b.IsTrue() {
		return True
	}
	if b.IsFalse() {
		return Not(a)
	}
	return app(BoolSort, "=>", a, b)
}

func Ite(c, a, b Term) Term {
	if c.IsTrue() {
		return a
	}
	if c.IsFalse() {
		return b
	}
	if a.S == b.S {
		return a
	}
	if a.Sort.K == SBool {
		if a.IsTrue() && b.IsFalse() {
			return c
		}
		if a.IsFalse() && b.IsTrue() {
			return Not(c)
		}
	}
	return app(a.Sort, "ite", c, a, b)
}

func Eq(a, b Term) Term {
	if a.Sort != b.Sort {
		panic(fmt.Sprintf("Eq sort mismatch: %s:%v vs %s:%v", a.S, a.Sort, b.S, b.Sort))
	}
	if a.S == b.S {
		return True
	}
	if a.Const != nil && b.Const != nil {
		return BoolConst(a.Const.Cmp(b.Const) == 0)
	}
	return app(BoolSort, "=", a, b)
}

func Ne(a, b Term) Term { return Not(Eq(a, b)) }

func bvbin(op string, a, b Term, f func(x, y *big.Int, w int) *big.Int) Term {
	if a.Sort != b.Sort || a.Sort.K != SBV {
		panic(fmt.Sprintf("bv op %s sort mismatch: %s:%v vs %s:%v", op, a.S, a.Sort, b.S, b.Sort))
	}
	if a.Const != nil && b.Const != nil && f != nil {
		r := f(a.Const, b.Const, a.Sort.W)
		if r != nil {
			return BVConstBig(new(big.Int).And(r, mask(a.Sort.W)), a.Sort.W)
		}
	}
	return app(a.Sort, op, a, b)
}

func Add(a, b Term) Term {
	if b.Const != nil && b.Const.Sign() == 0 {
		return a
	}
	if a.Const != nil && a.Const.Sign() == 0 {
		return b
	}
	return bvbin("bvadd", a, b, func(x, y *big.Int, w int) *big.Int { return new(big.Int).Add(x, y) })
}
func Sub(a, b Term) Term {
	if b.Const != nil && b.Const.Sign() == 0 {
		return a
	}
	return bvbin("bvsub", a, b, func(x, y *big.Int, w int) *big.Int {
		r := new(big.Int).Sub(x, y)
		return r.Mod(r, new(big.Int).Lsh(big.NewInt(1), uint(w)))
	})
}
func Mul(a, b Term) Term {
	if b.Const != nil && b.Const.Cmp(big.NewInt(1)) == 0 {
		return a
	}
	if a.Const != nil && a.Const.Cmp(big.NewInt(1)) == 0 {
		return b
	}
	return bvbin("bvmul", a, b, func(x, y *big.Int, w int) *big.Int { return new(big.Int).Mul(x, y) })
}
func BAnd(a, b Term) Term {
	return bvbin("bvand", a, b, func(x, y *big.Int, w int) *big.Int { return new(big.Int).And(x, y) })
}
func BOr(a, b Term) Term {
	if b.Const != nil && b.Const.Sign() == 0 {
		return a
	}
	if a.Const != nil && a.Const.Sign() == 0 {
		return b
	}
	return bvbin("bvor", a, b, func(x, y *big.Int, w int) *big.Int { return new(big.Int).Or(x, y) })
}
func BXor(a, b Term) Term {
	return bvbin("bvxor", a, b, func(x, y *big.Int, w int) *big.Int { return new(big.Int).Xor(x, y) })
}
func BNot(a Term) Term {
	if a.Const != nil {
		return BVConstBig(new(big.Int).Xor(a.Const, mask(a.Sort.W)), a.Sort.W)
	}
	return app(a.Sort, "bvnot", a)
}
func Neg(a Term) Term {
	if a.Const != nil {
		return BVConstBig(new(big.Int).Neg(a.Const), a.Sort.W)
	}
	return app(a.Sort, "bvneg", a)
}
func Shl(a, b Term) Term {
	if b.Const != nil && b.Const.Sign() == 0 {
		return a
	}
	return bvbin("bvshl", a, b, func(x, y *big.Int, w int) *big.Int {
		if y.Cmp(big.NewInt(int64(w))) >= 0 {
			return big.NewInt(0)
		}
		return new(big.Int).Lsh(x, uint(y.Int64()))
	})
}
func LShr(a, b Term) Term {
	if b.Const != nil && b.Const.Sign() == 0 {
		return a
	}
	return bvbin("bvlshr", a, b, func(x, y *big.Int, w int) *big.Int {
		if y.Cmp(big.NewInt(int64(w))) >= 0 {
			return big.NewInt(0)
		}
		return new(big.Int).Rsh(x, uint(y.Int64()))
	})
}
func AShr(a, b Term) Term {
	if b.Const != nil && b.Const.Sign() == 0 {
		return a
	}
	return bvbin("bvashr", a, b, func(x, y *big.Int, w int) *big.Int {
		s := signed(x, w)
		sh := uint(w)
		if y.Cmp(big.NewInt(int64(w))) < 0 {
			sh = uint(y.Int64())
		}
		r := new(big.Int).Rsh(s, sh)
		return r.Mod(r, new(big.Int).Lsh(big.NewInt(1), uint(w)))
	})
}
func UDiv(a, b Term) Term {
	return bvbin("bvudiv", a, b, func(x, y *big.Int, w int) *big.Int {
		if y.Sign() == 0 {
			return nil
		}
		return new(big.Int).Quo(x, y)
	})
}
func URem(a, b Term) Term {
	return bvbin("bvurem", a, b, func(x, y *big.Int, w int) *big.Int {
		if y.Sign() == 0 {
			return nil
		}
		return new(big.Int).Rem(x, y)
	})
}
func SDiv(a, b Term) Term {
	return bvbin("bvsdiv", a, b, func(x, y *big.Int, w int) *big.Int {
		if y.Sign() == 0 {
			return nil
		}
		r := new(big.Int).Quo(signed(x, w), signed(y, w))
		return r.Mod(r, new(big.Int).Lsh(big.NewInt(1), uint(w)))
	})
}
func SRem(a, b Term) Term {
	return bvbin("bvsrem", a, b, func(x, y *big.Int, w int) *big.Int {
		if y.Sign() == 0 {
			return nil
		}
		r := new(big.Int).Rem(signed(x, w), signed(y, w))
		return r.Mod(r, new(big.Int).Lsh(big.NewInt(1), uint(w)))
	})
}

func cmp(op string, a, b Term, f func(x, y *big.Int, w int) bool) Term {
	if a.Sort != b.Sort || a.Sort.K != SBV {
		panic(fmt.Sprintf("cmp %s sort mismatch: %s:%v vs %s:%v", op, a.S, a.Sort, b.S, b.Sort))
	}
	if a.Const != nil && b.Const != nil {
		return BoolConst(f(a.Const, b.Const, a.Sort.W))
	}
	return app(BoolSort, op, a, b)
}
func ULt(a, b Term) Term {
	return cmp("bvult", a, b, func(x, y *big.Int, w int) bool { return x.Cmp(y) < 0 })
}
func ULe(a, b Term) Term {
	return cmp("bvule", a, b, func(x, y *big.Int, w int) bool { return x.Cmp(y) <= 0 })
}
func SLt(a, b Term) Term {
	return cmp("bvslt", a, b, func(x, y *big.Int, w int) bool { return signed(x, w).Cmp(signed(y, w)) < 0 })
}
func SLe(a, b Term) Term {
	if a.S == b.S {
		return True
	}
	return cmp("bvsle", a, b, func(x, y *big.Int, w int) bool { return signed(x, w).Cmp(signed(y, w)) <= 0 })
}

func ZExt(a Term, w int) Term {
	if a.Sort.W == w {
		return a
	}
	if a.Sort.W > w {
		return Extract(a, w-1, 0)
	}
	if a.Const != nil {
		return BVConstBig(a.Const, w)
	}
	return Term{fmt.Sprintf("((_ zero_extend %d) %s)", w-a.Sort.W, a.S), BV(w), nil}
}
func SExt(a Term, w int) Term {
	if a.Sort.W == w {
		return a
	}
	if a.Sort.W > w {
		return Extract(a, w-1, 0)
	}
	if a.Const != nil {
		return BVConstBig(signed(a.Const, a.Sort.W), w)
	}
	return Term{fmt.Sprintf("((_ sign_extend %d) %s)", w-a.Sort.W, a.S), BV(w), nil}
}
func Extract(a Term, hi, lo int) Term {
	if lo == 0 && hi == a.Sort.W-1 {
		return a
	}
	if a.Const != nil {
		r := new(big.Int).Rsh(a.Const, uint(lo))
		return BVConstBig(r.And(r, mask(hi-lo+1)), hi-lo+1)
	}
	return Term{fmt.Sprintf("((_ extract %d %d) %s)", hi, lo, a.S), BV(hi - lo + 1), nil}
}
func Concat(hi, lo Term) Term {
	if hi.Const != nil && lo.Const != nil {
		r := new(big.Int).Lsh(hi.Const, uint(lo.Sort.W))
		return BVConstBig(r.Or(r, lo.Const), hi.Sort.W+lo.Sort.W)
	}
	return Term{fmt.Sprintf("(concat %s %s)", hi.S, lo.S), BV(hi.Sort.W + lo.Sort.W), nil}
}

func Select(arr, idx Term) Term {
	if arr.Sort.K != SArr {
		panic("select on non-array " + arr.S)
	}
	return app(BV(arr.Sort.W), "select", arr, idx)
}
func Store(arr, idx, v Term) Term {
	if arr.Sort.K != SArr || v.Sort.W != arr.Sort.W {
		panic(fmt.Sprintf("store sort mismatch %v <- %v", arr.Sort, v.Sort))
	}
	return app(arr.Sort, "store", arr, idx, v)
}
func ConstArr(w int, v Term) Term {
	return Term{fmt.Sprintf("((as const %s) %s)", Arr(w).String(), v.S), Arr(w), nil}
}

// BoolToBV1 / BV1ToBool bridge bools stored in memory arrays.
func BoolToBV(b Term, w int) Term { return Ite(b, BVConst(1, w), BVConst(0, w)) }
