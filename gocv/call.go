package main

import (
	"fmt"
	"go/token"
	"go/types"
	"os"
	"sort"
	"strings"

	"golang.org/x/tools/go/ssa"
)

const maxInlineDepth = 6

func (ex *Exec) call(fr *Frame, st *State, ci *ssa.Call) *Val {
	com := ci.Common()
	var args []*Val
	for _, a := range com.Args {
		args = append(args, ex.val(fr, a, st))
	}
	rt := ci.Type()
	pos := posOf(fr.fn, ci.Pos())
	// the function under verification; fr itself, or the frame fr is (transitively) inlined into: helpers without
	// a contract are part of the function's body as far as its call anchors and call counts are concerned
	rf := fr
	for rf.parent != nil {
		rf = rf.parent
	}
	if rf.isRoot && rf.contract != nil && len(rf.contract.CallCounts) > 0 {
		// call-count ghosts: a trace of the calls this function makes itself (the count is raised before the
		// call; a callee can only change it by naming the ghost in its modifies clause)
		nm := calleeName(ci)
		for _, cc := range rf.contract.CallCounts {
			if cc.Callee != nm {
				continue
			}
			if _, ok := ex.p.cs.Ghosts[cc.Ghost]; !ok {
				ex.specErr("counts call " + cc.Callee + " as " + cc.Ghost + ": no such ghost global")
				continue
			}
			loc := Loc{Obj: ex.ghost, Steps: []Step{{Name: "$" + cc.Ghost}}}
			gt := ex.ghostType(ex.ghost, cc.Ghost)
			cur := ex.load(st, loc, gt)
			ex.storeT(st, loc, &Val{K: KScalar, Typ: gt, T: Add(cur.T, BVConst(1, cur.T.Sort.W))}, gt)
		}
	}
	if rf.isRoot && ex.quiet == 0 && rf.contract != nil && len(rf.contract.Asserts) > 0 {
		name, k := ex.flatOrdinal(rf, fr, ci)
		for _, a := range rf.contract.Asserts {
			if a.Callee == name && (a.K == k || a.K == -1) {
				// arg0, arg1, ... name the actual arguments of the anchored call (arg0 is the receiver of a
				// statically dispatched method call)
				aenv := map[string]*Val{}
				for i, av := range args {
					aenv[fmt.Sprintf("arg%d", i)] = av
				}
				cj := ex.goalCtx(rf, st, ex.oldState, aenv).conjuncts(a.Clause.Expr)
				for j, x := range cj {
					nm := fmt.Sprintf("assert[%s]@call[%s:%d]", clauseLabel(a.Clause, 0), name, k)
					if len(cj) > 1 {
						nm = fmt.Sprintf("assert[%s.%d]@call[%s:%d]", clauseLabel(a.Clause, 0), j+1, name, k)
					}
					if a.Split != nil {
						sc := ex.evalBool(rf, a.Split, st, ex.oldState, aenv)
						ex.oblige(st, "assert", nm+"/case1", Implies(sc, x.T), a.Clause.Tags, pos, "assert (case "+a.Split.String()+") "+x.Text)
						ex.oblige(st, "assert", nm+"/case2", Implies(Not(sc), x.T), a.Clause.Tags, pos, "assert (case !("+a.Split.String()+")) "+x.Text)
						continue
					}
					ex.oblige(st, "assert", nm, x.T, a.Clause.Tags, pos, "assert "+x.Text)
				}
				ex.assertsHit[fmt.Sprintf("%s:%d", name, a.K)] = true
			}
		}
	}
	if com.IsInvoke() {
		recv := ex.val(fr, com.Value, st)
		return ex.invoke(fr, st, ci, recv, com.Method, args, rt, pos)
	}
	switch callee := com.Value.(type) {
	case *ssa.Builtin:
		return ex.builtin(fr, st, ci, callee.Name(), args, com.Args, rt, pos)
	case *ssa.Function:
		return ex.callFunc(fr, st, ci, callee, args, nil, rt, pos)
	case *ssa.MakeClosure:
		fv := ex.val(fr, callee, st)
		return ex.callFunc(fr, st, ci, callee.Fn.(*ssa.Function), args, fv.Bind, rt, pos)
	}
	fv := ex.val(fr, com.Value, st)
	if fv.K == KFunc {
		if f, ok := fv.Fn.(*ssa.Function); ok {
			return ex.callFunc(fr, st, ci, f, args, fv.Bind, rt, pos)
		}
		if fv.FnVar != "" {
			if ct := ex.p.contractFor("var " + fv.FnVar); ct != nil {
				sig := com.Signature()
				ex.oblige(st, "nil", fmt.Sprintf("nil[call:%s]", ex.ordinalAt(fr, ci)), Not(fv.IsNil), nil, pos, "function value is not nil")
				return ex.byContract(fr, st, ci, ct, "var "+fv.FnVar, sigNames(sig, nil, ct), args, sig, rt, pos)
			}
		}
	}
	ex.note("call through function value without contract in %s at %s", fr.key, pos)
	return ex.unknownCall(st, args, rt, "dyncall")
}

func sigNames(sig *types.Signature, fn *ssa.Function, ct *Contract) (names []string) {
	if ct != nil && len(ct.ParamNames) > 0 {
		return ct.ParamNames
	}
	if fn != nil {
		for _, p := range fn.Params {
			names = append(names, p.Name())
		}
		return names
	}
	if sig.Recv() != nil {
		n := sig.Recv().Name()
		if n == "" || n == "_" {
			n = "self"
		}
		names = append(names, n)
	}
	for i := 0; i < sig.Params().Len(); i++ {
		n := sig.Params().At(i).Name()
		if n == "" || n == "_" {
			n = fmt.Sprintf("p%d", i)
		}
		names = append(names, n)
	}
	return names
}

func resultNames(sig *types.Signature, ct *Contract) (names []string) {
	if ct != nil && len(ct.ResultNames) > 0 {
		return ct.ResultNames
	}
	for i := 0; i < sig.Results().Len(); i++ {
		n := sig.Results().At(i).Name()
		if n == "" || n == "_" {
			n = fmt.Sprintf("result%d", i)
		}
		names = append(names, n)
	}
	return names
}

func (ex *Exec) unknownCall(st *State, args []*Val, rt types.Type, why string) *Val {
	ex.havocReach(st, args, why)
	ex.havocGhostGlobals(st, why)
	return ex.freshResult(rt, why)
}

func (ex *Exec) freshResult(rt types.Type, why string) *Val {
	if tt, ok := rt.(*types.Tuple); ok {
		if tt.Len() == 0 {
			return &Val{K: KTuple, Typ: rt}
		}
		v := &Val{K: KTuple, Typ: rt}
		for i := 0; i < tt.Len(); i++ {
			v.Fs = append(v.Fs, ex.freshVal(tt.At(i).Type(), fmt.Sprintf("%s.r%d", why, i)))
		}
		return v
	}
	return ex.freshVal(rt, why+".r")
}

func (ex *Exec) havocGhostGlobals(st *State, why string) {
	ex.havocPrefix(st, ex.ghost, "", why)
}

// havocReach havocs every object reachable from the given values.
func (ex *Exec) havocReach(st *State, vals []*Val, why string) {
	seen := map[*Obj]bool{}
	var visit func(v *Val)
	visitObj := func(o *Obj, prefix string) {
		if seen[o] && prefix == "" {
			return
		}
		if prefix == "" {
			seen[o] = true
		}
		// follow pointers stored in the object before havocking
		for _, lf := range ex.objLeaves(o) {
			if !strings.HasPrefix(lf.key, prefix) || strings.Contains(lf.key, "[*]") {
				continue
			}
			switch under(lf.typ).(type) {
			case *types.Pointer, *types.Slice, *types.Interface:
				cv := ex.lookupCell(st, o, lf.key, lf.typ, false)
				visit(cv)
			}
		}
		if !o.Local {
			ex.havocPrefix(st, o, prefix, why)
		}
	}
	visit = func(v *Val) {
		if v == nil {
			return
		}
		switch v.K {
		case KPtr:
			for _, t := range v.Tg {
				if len(t.Loc.Steps) == 0 {
					visitObj(t.Loc.Obj, "")
				} else {
					visitObj(t.Loc.Obj, regionKey(Loc{Obj: t.Loc.Obj, Steps: t.Loc.Steps}))
				}
			}
		case KSlice:
			for _, t := range v.Tg {
				visitObj(t.Loc.Obj, regionKey(t.Loc)+"[*]")
			}
		case KIface:
			for _, pv := range v.Cases {
				visit(pv)
			}
		case KStruct, KTuple:
			for _, f := range v.Fs {
				visit(f)
			}
		case KFunc:
			for _, b := range v.Bind {
				visit(b)
			}
		}
	}
	for _, v := range vals {
		visit(v)
	}
}

// ---------- interface method calls ----------

func (ex *Exec) invoke(fr *Frame, st *State, ci *ssa.Call, recv *Val, m *types.Func, args []*Val, rt types.Type, pos string) *Val {
	if isErrorType(recv.Typ) || (recv.K == KScalar && recv.T.Sort == BV(32)) {
		// error.Error()
		return ex.freshResult(rt, "errstr")
	}
	if recv.K != KIface {
		ex.note("invoke on unsupported receiver in %s at %s", fr.key, pos)
		return ex.unknownCall(st, args, rt, "invoke")
	}
	ex.oblige(st, "nil", fmt.Sprintf("nil[call:%s]", ex.ordinalAt(fr, ci)), Ne(recv.Tag, BVConst(0, 16)), nil, pos, "interface value is not nil at method call")
	keys := make([]string, 0, len(recv.Cases))
	for k := range recv.Cases {
		keys = append(keys, k)
	}
	sort.Strings(keys)
	type outcome struct {
		st  *State
		res *Val
	}
	var outs []outcome
	for _, k := range keys {
		pv := recv.Cases[k]
		var guard Term
		var ct types.Type
		if k == "other" {
			guard = Eq(recv.Tag, BVConst(tagOther, 16))
		} else {
			ct = ex.p.lookupTypeKey(k)
			if ct == nil {
				ex.note("unknown dynamic type %s", k)
				continue
			}
			guard = Eq(recv.Tag, BVConst(int64(ex.p.typeTag(ct)), 16))
		}
		pc := And(st.pc, guard)
		if pc.IsFalse() {
			continue
		}
		s2 := st.Clone()
		s2.pc = ex.name(pc, "pc")
		var res *Val
		if k == "other" {
			key := m.FullName()
			if it := recvNamed(recv.Typ); it != "" {
				key = "(" + it + ")." + m.Name()
			}
			ctr := ex.p.contractFor(key)
			if ctr == nil {
				ctr = ex.p.contractFor(m.FullName())
			}
			all := append([]*Val{pv}, args...)
			if ctr == nil {
				ex.note("no contract for interface method %s (called in %s)", key, fr.key)
				res = ex.unknownCall(s2, all, rt, "invoke")
			} else {
				sig := m.Type().(*types.Signature)
				names := ctr.ParamNames
				if len(names) == 0 {
					names = append([]string{"self"}, sigNames(types.NewSignatureType(nil, nil, nil, sig.Params(), sig.Results(), sig.Variadic()), nil, nil)...)
				}
				res = ex.byContract(fr, s2, ci, ctr, key, names, all, sig, rt, pos)
			}
		} else {
			fn := ex.p.ssaProg.LookupMethod(ct, m.Pkg(), m.Name())
			if fn == nil {
				ex.note("method %s not found on %s", m.Name(), k)
				res = ex.unknownCall(s2, append([]*Val{pv}, args...), rt, "invoke")
			} else {
				res = ex.callFunc(fr, s2, ci, fn, append([]*Val{pv}, args...), nil, rt, pos)
			}
		}
		outs = append(outs, outcome{s2, res})
	}
	if len(outs) == 0 {
		st.pc = False
		return ex.freshResult(rt, "invoke")
	}
	if len(outs) == 1 {
		*st = *outs[0].st
		return outs[0].res
	}
	var ins []inEdge
	for _, o := range outs {
		ins = append(ins, inEdge{st: o.st})
	}
	merged := ex.mergeEdges(ins)
	var res *Val
	for i := len(outs) - 1; i >= 0; i-- {
		if res == nil {
			res = outs[i].res
		} else {
			res = ex.ite(outs[i].st.pc, outs[i].res, res)
		}
	}
	*st = *merged
	return res
}

func recvNamed(t types.Type) string {
	if t == nil {
		return ""
	}
	if n, ok := types.Unalias(t).(*types.Named); ok && n.Obj().Pkg() != nil {
		return n.Obj().Pkg().Path() + "." + n.Obj().Name()
	}
	return ""
}

// ---------- static calls ----------

func (ex *Exec) callFunc(fr *Frame, st *State, ci *ssa.Call, fn *ssa.Function, args []*Val, bind []*Val, rt types.Type, pos string) *Val {
	key := FuncKey(fn)
	if r, ok := ex.native(fr, st, ci, key, fn, args, rt, pos); ok {
		return r
	}
	ct := ex.p.contractFor(key)
	inModule := fn.Pkg != nil && strings.HasPrefix(fn.Pkg.Pkg.Path(), ex.p.modulePath)
	// implicit precondition: pointer receivers are not nil
	if fn.Signature.Recv() != nil && len(args) > 0 && args[0].K == KPtr {
		if _, isPtr := under(fn.Signature.Recv().Type()).(*types.Pointer); isPtr {
			ex.oblige(st, "nil", fmt.Sprintf("nil[recv:%s]", ex.ordinalAt(fr, ci)), Not(args[0].IsNil), nil, pos, "receiver is not nil")
		}
	}
	if ct != nil && (!ct.Inline || len(fn.Blocks) == 0) {
		return ex.byContract(fr, st, ci, ct, key, sigNames(fn.Signature, fn, ct), args, fn.Signature, rt, pos)
	}
	if len(fn.Blocks) > 0 && inModule && ex.depth < maxInlineDepth && !ex.onStack(key) {
		return ex.inline(fr, st, ci, fn, args, bind, rt)
	}
	if len(fn.Blocks) > 0 && inModule {
		ex.note("call of %s neither under contract nor inlinable (depth/recursion) in %s", key, fr.key)
	} else {
		ex.note("call of external function %s without contract in %s", key, fr.key)
	}
	return ex.unknownCall(st, args, rt, "call."+fn.Name())
}

func (ex *Exec) onStack(key string) bool {
	for _, k := range ex.stack {
		if k == key {
			return true
		}
	}
	return false
}

func (ex *Exec) inline(fr *Frame, st *State, ci *ssa.Call, fn *ssa.Function, args []*Val, bind []*Val, rt types.Type) *Val {
	nf := ex.newFrame(fn, args, fr.depth+1)
	nf.parent, nf.via = fr, ci
	nf.bindings = bind
	ex.depth++
	ex.stack = append(ex.stack, nf.key)
	ex.calledKeys[nf.key] = true
	entry := st.Clone()
	ex.runFrame(nf, entry)
	ex.stack = ex.stack[:len(ex.stack)-1]
	ex.depth--
	if len(nf.rets) == 0 {
		st.pc = False
		return ex.freshResult(rt, "noreturn")
	}
	var ins []inEdge
	for _, r := range nf.rets {
		ins = append(ins, inEdge{st: r.st})
	}
	merged := ex.mergeEdges(ins)
	// drop the callee's locals from the state
	*st = *merged
	nres := fn.Signature.Results().Len()
	if nres == 0 {
		return &Val{K: KTuple, Typ: rt}
	}
	merge := func(i int) *Val {
		var res *Val
		for k := len(nf.rets) - 1; k >= 0; k-- {
			v := nf.rets[k].vals[i]
			if res == nil {
				res = v
			} else {
				res = ex.ite(nf.rets[k].st.pc, v, res)
			}
		}
		return res
	}
	if nres == 1 {
		return merge(0)
	}
	v := &Val{K: KTuple, Typ: rt}
	for i := 0; i < nres; i++ {
		v.Fs = append(v.Fs, merge(i))
	}
	return v
}

// evalMods evaluates a modifies clause to (object, key prefix) entries.
func (ex *Exec) evalMods(c *SCtx, mods []*SExpr) []modEntry {
	var out []modEntry
	for _, m := range mods {
		deep := false
		e := m
		stars := 0
		for e.Op == "un" && e.Name == "*" {
			stars++
			e = e.Args[0]
		}
		if stars >= 2 {
			deep = true
		}
		if stars >= 1 {
			v := c.eval(e)
			switch v.K {
			case KPtr:
				for _, t := range v.Tg {
					out = append(out, modEntry{obj: t.Loc.Obj, prefix: regionKey(t.Loc), deep: deep, text: m.String()})
				}
			case KIface:
				for _, pv := range v.Cases {
					for _, t := range pv.Tg {
						out = append(out, modEntry{obj: t.Loc.Obj, prefix: regionKey(t.Loc), deep: deep, text: m.String()})
					}
				}
			case KSlice:
				for _, t := range v.Tg {
					out = append(out, modEntry{obj: t.Loc.Obj, prefix: regionKey(t.Loc) + "[*]", deep: deep, text: m.String(), ranged: !deep && len(v.Tg) == 1, off: v.Off, n: v.Len})
				}
			default:
				ex.specErr(fmt.Sprintf("modifies: cannot resolve %s", m.String()))
			}
			continue
		}
		if e.Op == "star" || e.Op == "slice" {
			v := c.eval(e.Args[0])
			if v.K == KSlice {
				for _, t := range v.Tg {
					out = append(out, modEntry{obj: t.Loc.Obj, prefix: regionKey(t.Loc) + "[*]", text: m.String(), ranged: len(v.Tg) == 1, off: v.Off, n: v.Len})
				}
				continue
			}
			if p := c.addr(e.Args[0]); p != nil {
				for _, t := range p.Tg {
					out = append(out, modEntry{obj: t.Loc.Obj, prefix: regionKey(t.Loc) + "[*]", text: m.String()})
				}
				continue
			}
			ex.specErr(fmt.Sprintf("modifies: cannot resolve %s", m.String()))
			continue
		}
		p := c.addr(e)
		if p == nil {
			ex.specErr(fmt.Sprintf("modifies: %s is not a location", m.String()))
			continue
		}
		for _, t := range p.Tg {
			out = append(out, modEntry{obj: t.Loc.Obj, prefix: regionKey(t.Loc), text: m.String()})
		}
	}
	return out
}

func (ex *Exec) applyMods(st *State, mods []modEntry, why string) {
	for _, m := range mods {
		if m.deep {
			ex.havocReach(st, []*Val{{K: KPtr, Tg: []Target{{G: True, Loc: Loc{Obj: m.obj}}}}}, why)
			continue
		}
		if m.ranged {
			ex.havocRange(st, m, why)
			continue
		}
		ex.havocPrefix(st, m.obj, m.prefix, why)
	}
}

// havocRange havocs the elements [off, off+n) of the regions under the entry's prefix and keeps the rest
// (frame axiom: elements outside the slice are unchanged).
func (ex *Exec) havocRange(st *State, m modEntry, why string) {
	for _, lf := range ex.objLeaves(m.obj) {
		if !strings.HasPrefix(lf.key, m.prefix) {
			continue
		}
		full := fmt.Sprintf("%d|%s", m.obj.ID, lf.key)
		old := ex.lookupCell(st, m.obj, lf.key, lf.typ, true)
		nv := ex.freshArr(lf.typ, nil, why+"."+m.obj.Name+strings.ReplaceAll(lf.key, "[*]", ""))
		if nv.K != KArray || old.K != KArray || !old.T.Valid() {
			ex.havocPrefix(st, m.obj, lf.key, why)
			continue
		}
		for _, c := range ex.colls {
			if m.obj.ID >= c.firstID {
				continue
			}
			if c.written[full] == nil {
				c.written[full] = &writeRec{loc: Loc{Obj: m.obj}}
			}
		}
		ex.ctr++
		iv := fmt.Sprintf("i!f%d", ex.ctr)
		i := Var(iv, BV(64))
		outside := Or(SLt(i, m.off), SLe(Add(m.off, m.n), i))
		body := Implies(outside, Eq(Select(nv.T, i), Select(old.T, i)))
		ex.script = append(ex.script, fmt.Sprintf("(assert (forall ((%s (_ BitVec 64))) (! %s :pattern ((select %s %s)))))", iv, body.S, nv.T.S, iv))
		ex.cellMeta[full] = cellMeta{obj: m.obj, key: lf.key, typ: lf.typ, region: true}
		st.cells[full] = nv
	}
}

func (ex *Exec) byContract(fr *Frame, st *State, ci *ssa.Call, ct *Contract, key string, names []string, args []*Val, sig *types.Signature, rt types.Type, pos string) *Val {
	ex.calledKeys[key] = true
	if ct.Trusted {
		ex.trustedUsed[key] = true
	}
	env := map[string]*Val{}
	for i, n := range names {
		if i < len(args) {
			env[n] = args[i]
		}
	}
	ord := ex.ordinalAt(fr, ci)
	short := shortFn(key)
	pkg := ct.Pkg
	if pkg == "" && fr.fn.Pkg != nil {
		pkg = fr.fn.Pkg.Pkg.Path()
	}
	cpre := &SCtx{ex: ex, pkg: pkg, env: env, cur: st, old: nil, goal: true}
	for i, c := range ct.Requires {
		if c.Cfg != "" && c.Cfg != ex.p.cfgName {
			continue
		}
		cj := cpre.conjuncts(c.Expr)
		for j, x := range cj {
			nm := fmt.Sprintf("pre[%s]@call[%s:%s]", clauseLabel(c, i), short, ord)
			if len(cj) > 1 {
				nm = fmt.Sprintf("pre[%s.%d]@call[%s:%s]", clauseLabel(c, i), j+1, short, ord)
			}
			ex.oblige(st, "pre", nm, x.T, c.Tags, pos, "requires "+x.Text)
		}
	}
	old := st.Clone()
	if ct.HasModifies {
		mods := ex.evalMods(&SCtx{ex: ex, pkg: pkg, env: env, cur: old, old: nil}, ct.Modifies)
		ex.checkFrameMods(fr, st, mods, ci, key)
		ex.applyMods(st, mods, "c"+ord)
	} else {
		ex.checkFrameUnknown(fr, st, args, ci, key)
		ex.havocReach(st, args, "c"+ord)
		ex.havocGhostGlobals(st, "c"+ord)
	}
	// results
	rnames := resultNames(sig, ct)
	var res *Val
	nres := sig.Results().Len()
	mk := func(i int) *Val {
		t := sig.Results().At(i).Type()
		ex.freshCtx++
		v := ex.freshVal(t, fmt.Sprintf("%s.%s", short, rnames[i]))
		ex.freshCtx--
		if an, ok := ct.ResultAlias[rnames[i]]; ok && v.K == KSlice {
			if a, ok := env[an]; ok && a.K == KSlice {
				v.Tg = a.Tg
				v.Off = a.Off
			}
		}
		return v
	}
	env2 := map[string]*Val{}
	for k, v := range env {
		env2[k] = v
	}
	if nres == 1 {
		res = mk(0)
		env2[rnames[0]] = res
		env2["result"] = res
	} else if nres > 1 {
		res = &Val{K: KTuple, Typ: rt}
		for i := 0; i < nres; i++ {
			v := mk(i)
			res.Fs = append(res.Fs, v)
			env2[rnames[i]] = v
			env2[fmt.Sprintf("result%d", i)] = v
		}
	} else {
		res = &Val{K: KTuple, Typ: rt}
	}
	cpost := &SCtx{ex: ex, pkg: pkg, env: env2, oldEnv: env, cur: st, old: old}
	// ensures clauses of the form [G ==>] L == R (or same(L)) over pointer / interface
	// locations re-point the location: they are applied as (guarded) assignments first
	for _, c := range ct.Ensures {
		if c.AtReturn > 0 {
			continue
		}
		for _, as := range flattenAssigns(c.Expr, nil) {
			ex.applyPtrAssign(cpost, st, as)
		}
	}
	for _, c := range ct.Ensures {
		if c.AtReturn > 0 {
			continue // return-specific clauses mention the callee's locals; they are not visible to callers
		}
		if c.Cfg != "" && c.Cfg != ex.p.cfgName {
			continue
		}
		if hasTag(c.Tags, "nocall") {
			continue // a clause that is checked on the function but never assumed by callers (recorded findings)
		}
		ex.assume(st.pc, cpost.bool(c.Expr))
	}
	for _, c := range ct.Assumes {
		ex.assume(st.pc, cpost.bool(c.Expr))
		ex.trustedUsed["assumes:"+key+": "+c.Text] = true
	}
	// asmreturns: the value set is established by the dataflow over the assembly text (asmret.go), not assumed
	for _, ar := range ct.AsmReturns {
		if v, ok := env2[ar.Result]; ok && v.K == KScalar && v.T.Sort.K == SBV {
			var alts []Term
			for _, c := range ar.Allowed {
				alts = append(alts, Eq(v.T, BVConst(c, v.T.Sort.W)))
			}
			ex.assume(st.pc, Or(alts...))
		}
	}
	return res
}

// ---------- frame checking (root function only) ----------

func (ex *Exec) covered(o *Obj, key string) bool {
	if o.Fresh || o.Local || o == nil {
		return true
	}
	if !ex.hasMods {
		return true
	}
	for _, m := range ex.rootMods {
		if m.deep {
			if ex.reachableFrom(m.obj, o) {
				return true
			}
			continue
		}
		if m.obj == o && strings.HasPrefix(key, m.prefix) {
			return true
		}
	}
	return false
}

// reachableFrom reports whether o is reachable from root through the pointer
// structure of the entry state.
func (ex *Exec) reachableFrom(root, o *Obj) bool {
	if ex.reach == nil {
		ex.reach = map[*Obj]map[*Obj]bool{}
	}
	set, ok := ex.reach[root]
	if !ok {
		set = map[*Obj]bool{}
		ex.reach[root] = set
		base := NewState()
		ex.inEntry++
		var visit func(v *Val)
		var visitObj func(x *Obj)
		visitObj = func(x *Obj) {
			if set[x] {
				return
			}
			set[x] = true
			for _, lf := range ex.objLeaves(x) {
				if strings.Contains(lf.key, "[*]") {
					continue
				}
				switch under(lf.typ).(type) {
				case *types.Pointer, *types.Slice, *types.Interface:
					if isErrorType(lf.typ) {
						continue
					}
					visit(ex.lookupCell(base, x, lf.key, lf.typ, false))
				}
			}
		}
		visit = func(v *Val) {
			if v == nil {
				return
			}
			for _, t := range v.Tg {
				visitObj(t.Loc.Obj)
			}
			for _, pv := range v.Cases {
				visit(pv)
			}
		}
		visitObj(root)
		ex.inEntry--
	}
	return set[o]
}

func (ex *Exec) checkFrame(fr *Frame, st *State, p *Val, in ssa.Instruction) {
	if ex.quiet > 0 || !ex.hasMods || p.K != KPtr {
		return
	}
	for _, t := range p.Tg {
		if !ex.covered(t.Loc.Obj, regionKey(t.Loc)) {
			ex.oblige(st, "frame", fmt.Sprintf("frame[store:%s]", ex.ordinalAt(fr, in)), Not(t.G), nil, posOf(fr.fn, in.Pos()),
				fmt.Sprintf("store to %s is not covered by the modifies clause", t.Loc.String()))
		}
	}
}

func (ex *Exec) checkFrameMods(fr *Frame, st *State, mods []modEntry, in ssa.Instruction, callee string) {
	if ex.quiet > 0 || !ex.hasMods {
		return
	}
	for _, m := range mods {
		if m.deep {
			if !ex.coveredDeep(m.obj) {
				ex.oblige(st, "frame", fmt.Sprintf("frame[call:%s:%s]", shortFn(callee), ex.ordinalAt(fr, in)), False, nil, posOf(fr.fn, in.Pos()),
					fmt.Sprintf("callee %s may modify %s, not covered by the modifies clause", callee, m.text))
			}
			continue
		}
		if !ex.covered(m.obj, m.prefix) {
			ex.oblige(st, "frame", fmt.Sprintf("frame[call:%s:%s]", shortFn(callee), ex.ordinalAt(fr, in)), False, nil, posOf(fr.fn, in.Pos()),
				fmt.Sprintf("callee %s may modify %s (%s), not covered by the modifies clause", callee, m.text, m.obj.Name+m.prefix))
		}
	}
}

func (ex *Exec) coveredDeep(o *Obj) bool {
	if o.Fresh || o.Local {
		return true
	}
	for _, m := range ex.rootMods {
		if m.deep && ex.reachableFrom(m.obj, o) {
			return true
		}
	}
	return false
}

func (ex *Exec) checkFrameUnknown(fr *Frame, st *State, args []*Val, in ssa.Instruction, callee string) {
	if ex.quiet > 0 || !ex.hasMods {
		return
	}
	for _, a := range args {
		var tgs []Target
		switch a.K {
		case KPtr, KSlice:
			tgs = a.Tg
		case KIface:
			for _, pv := range a.Cases {
				tgs = append(tgs, pv.Tg...)
			}
		}
		for _, t := range tgs {
			if !ex.coveredDeep(t.Loc.Obj) && !ex.covered(t.Loc.Obj, regionKey(t.Loc)) {
				ex.oblige(st, "frame", fmt.Sprintf("frame[call:%s:%s]", shortFn(callee), ex.ordinalAt(fr, in)), False, nil, posOf(fr.fn, in.Pos()),
					fmt.Sprintf("callee %s has no modifies clause and receives %s, which the caller's modifies clause does not cover", callee, t.Loc.String()))
			}
		}
	}
}

type ptrAssign struct {
	guard []*SExpr
	lhs   *SExpr
	rhs   *SExpr // nil: old(lhs)
}

func flattenAssigns(e *SExpr, guard []*SExpr) []ptrAssign {
	switch {
	case e.Op == "bin" && e.Name == "&&":
		return append(flattenAssigns(e.Args[0], guard), flattenAssigns(e.Args[1], guard)...)
	case e.Op == "bin" && e.Name == "==>":
		return flattenAssigns(e.Args[1], append(append([]*SExpr{}, guard...), e.Args[0]))
	case e.Op == "bin" && e.Name == "==":
		return []ptrAssign{{guard: guard, lhs: e.Args[0], rhs: e.Args[1]}}
	case e.Op == "call" && e.Name == "same" && len(e.Args) == 1:
		return []ptrAssign{{guard: guard, lhs: e.Args[0], rhs: nil}}
	}
	return nil
}

func (ex *Exec) applyPtrAssign(c *SCtx, st *State, as ptrAssign) {
	saved := ex.specErrs
	defer func() { ex.specErrs = saved }()
	p := c.addr(as.lhs)
	if p == nil || len(p.Tg) != 1 || p.Tg[0].Loc.HasIdx() {
		return
	}
	t := ex.safeTypeAt(p.Tg[0].Loc)
	if t == nil || isErrorType(t) {
		return
	}
	switch under(t).(type) {
	case *types.Pointer, *types.Interface:
	default:
		return
	}
	var rv *Val
	if as.rhs == nil {
		c2 := *c
		c2.inOld = true
		rv = c2.eval(as.lhs)
	} else {
		rv = c.eval(as.rhs)
	}
	if rv == nil || (rv.K != KPtr && rv.K != KIface) {
		return
	}
	if rv.K == KPtr && rv.Typ == types.Typ[types.UntypedNil] {
		rv = ex.zeroVal(t)
	}
	g := True
	for _, ge := range as.guard {
		g = And(g, c.bool(ge))
	}
	cur := ex.load(st, p.Tg[0].Loc, t)
	if cur.K != rv.K {
		return
	}
	nv := ex.ite(g, rv, cur)
	if nv.K == KPtr || nv.K == KIface {
		c2 := *nv
		c2.Typ = t
		nv = &c2
	}
	st.cells[p.Tg[0].Loc.Key()] = nv
}

func calleeName(ci *ssa.Call) string {
	com := ci.Common()
	if com.IsInvoke() {
		return com.Method.Name()
	}
	switch v := com.Value.(type) {
	case *ssa.Builtin:
		return v.Name()
	case *ssa.Function:
		return v.Name()
	}
	return com.Value.Name()
}

// callOrdinal numbers the calls of the same callee name within a function in source order (the position of the
// call's opening parenthesis), so that a contract anchor "call NAME K" survives refactorings that only change the
// block layout of the SSA form (extracting the statements before a call into a helper, if/else <-> switch, ...).
// Calls without a source position (synthesised by the SSA builder) come last, in block order.
func callOrdinal(fn *ssa.Function, ci *ssa.Call) (string, int) {
	name := calleeName(ci)
	type ent struct {
		c   *ssa.Call
		pos token.Pos
		seq int
	}
	var all []ent
	for _, b := range fn.Blocks {
		for _, in := range b.Instrs {
			if c, ok := in.(*ssa.Call); ok && calleeName(c) == name {
				all = append(all, ent{c, c.Pos(), len(all)})
			}
		}
	}
	sort.SliceStable(all, func(i, j int) bool {
		pi, pj := all[i].pos, all[j].pos
		if pi.IsValid() != pj.IsValid() {
			return pi.IsValid()
		}
		if pi != pj {
			return pi < pj
		}
		return all[i].seq < all[j].seq
	})
	for k, e := range all {
		if e.c == ci {
			if os.Getenv("GOCV_ORDMAP") != "" && e.seq != k {
				fmt.Fprintf(os.Stderr, "ORDMAP %s call %s block-order %d source-order %d\n", fn.String(), name, e.seq+1, k+1)
			}
			return name, k + 1
		}
	}
	return name, 0
}

// flatOrdinal numbers the calls of one callee name over the body of the function under verification with its
// contract-less helpers expanded in place (exactly the calls the executor inlines): source order within each
// function, a helper's calls at the position of the call that inlines it. Moving the statements around an anchored
// call - or the call itself - into an unexported helper therefore keeps "call NAME K" pointing at the same call.
func (ex *Exec) flatOrdinal(rf, fr *Frame, ci *ssa.Call) (string, int) {
	name := calleeName(ci)
	var path []*ssa.Call
	for f := fr; f != nil && f.parent != nil; f = f.parent {
		path = append([]*ssa.Call{f.via}, path...)
	}
	path = append(path, ci)
	ck := rf.key + "|" + name
	if ex.flatCache == nil {
		ex.flatCache = map[string][][]*ssa.Call{}
	}
	list, ok := ex.flatCache[ck]
	if !ok {
		ex.flatRec(rf.fn, name, nil, []string{rf.key}, &list)
		ex.flatCache[ck] = list
	}
	for k, p := range list {
		if len(p) != len(path) {
			continue
		}
		same := true
		for i := range p {
			if p[i] != path[i] {
				same = false
				break
			}
		}
		if same {
			return name, k + 1
		}
	}
	return name, 0
}

func (ex *Exec) flatRec(fn *ssa.Function, name string, path []*ssa.Call, stack []string, out *[][]*ssa.Call) {
	type ent struct {
		c   *ssa.Call
		seq int
	}
	var all []ent
	for _, b := range fn.Blocks {
		for _, in := range b.Instrs {
			if c, ok := in.(*ssa.Call); ok {
				all = append(all, ent{c, len(all)})
			}
		}
	}
	sort.SliceStable(all, func(i, j int) bool {
		pi, pj := all[i].c.Pos(), all[j].c.Pos()
		if pi.IsValid() != pj.IsValid() {
			return pi.IsValid()
		}
		if pi != pj {
			return pi < pj
		}
		return all[i].seq < all[j].seq
	})
	for _, e := range all {
		c := e.c
		if calleeName(c) == name {
			*out = append(*out, append(append([]*ssa.Call{}, path...), c))
		}
		var callee *ssa.Function
		switch v := c.Common().Value.(type) {
		case *ssa.Function:
			callee = v
		case *ssa.MakeClosure:
			callee, _ = v.Fn.(*ssa.Function)
		}
		if callee == nil || c.Common().IsInvoke() || len(callee.Blocks) == 0 {
			continue
		}
		key := FuncKey(callee)
		if ct := ex.p.contractFor(key); ct != nil && !ct.Inline {
			continue
		}
		inModule := callee.Pkg != nil && strings.HasPrefix(callee.Pkg.Pkg.Path(), ex.p.modulePath)
		onStack := false
		for _, k := range stack {
			onStack = onStack || k == key
		}
		if !inModule || len(path) >= maxInlineDepth || onStack {
			continue
		}
		ex.flatRec(callee, name, append(append([]*ssa.Call{}, path...), c), append(append([]string{}, stack...), key), out)
	}
}

func hasTag(tags []string, t string) bool {
	for _, x := range tags {
		if x == t {
			return true
		}
	}
	return false
}
