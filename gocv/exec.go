package main

import (
	"fmt"
	"go/constant"
	"go/token"
	"go/types"
	"math/big"
	"sort"
	"strings"

	"golang.org/x/tools/go/ssa"
)

type Frame struct {
	fn       *ssa.Function
	key      string
	vals     map[ssa.Value]*Val
	allocs   map[*ssa.Alloc]*Obj
	byName   map[string][]*ssa.Alloc
	args     []*Val
	contract *Contract
	isRoot   bool
	rets     []retEdge
	loops    map[*ssa.BasicBlock]*loopInfo
	order    []*ssa.BasicBlock
	resEnv   map[string]*Val
	depth    int
	phiEdges map[*ssa.BasicBlock][]inEdge
	retCount int
	bindings []*Val
	allocSeq map[*ssa.Alloc]int
	curBlock *ssa.BasicBlock
	seqCtr   int
	callCount map[string]int
	parent   *Frame    // the frame this one is inlined into (nil for the root)
	via      *ssa.Call // the call instruction in parent that is being inlined
}

var autoRangeInv, _ = ParseSpec("-1 <= rangeindex && rangeindex <= 1099511627776")

type retEdge struct {
	st   *State
	vals []*Val
}

type inEdge struct {
	from *ssa.BasicBlock
	st   *State // state with pc = edge condition
}

type loopInfo struct {
	header  *ssa.BasicBlock
	body    map[*ssa.BasicBlock]bool
	ordinal int
	spec    *LoopSpec
	decr    Term
	hasDecr bool
	pre     *State
	filtered bool // stale invariant conjuncts have been removed
}

func (ex *Exec) newFrame(fn *ssa.Function, args []*Val, depth int) *Frame {
	fr := &Frame{fn: fn, key: FuncKey(fn), vals: map[ssa.Value]*Val{}, allocs: map[*ssa.Alloc]*Obj{}, byName: map[string][]*ssa.Alloc{}, args: args, depth: depth,
		phiEdges: map[*ssa.BasicBlock][]inEdge{}, callCount: map[string]int{}, allocSeq: map[*ssa.Alloc]int{}}
	fr.contract = ex.p.contractFor(fr.key)
	for i, p := range fn.Params {
		if i < len(args) {
			fr.vals[p] = args[i]
		}
	}
	for _, b := range fn.Blocks {
		for _, in := range b.Instrs {
			if a, ok := in.(*ssa.Alloc); ok && a.Comment != "" {
				fr.byName[a.Comment] = append(fr.byName[a.Comment], a)
			}
		}
	}
	fr.computeLoops()
	// range loops: the hidden index starts at -1 and only grows (automatic, checked invariant)
	for _, l := range fr.loops {
		if strings.HasPrefix(l.header.Comment, "rangeindex.loop") {
			l.spec = &LoopSpec{Invariants: []*Clause{{Kind: "invariant", Label: "auto-rangeindex", Expr: autoRangeInv, Text: "-1 <= rangeindex && rangeindex <= 2^40 (automatic)"}}}
		}
	}
	// counting loops: a local that is only ever incremented by one inside the loop and is tested by the loop
	// condition (v < e / v <= e) never drops below its value at loop entry (automatic, checked invariant); this
	// keeps contracts free of clauses like `0 <= i` that would tie them to the name of the counter
	for _, l := range fr.loops {
		if strings.HasPrefix(l.header.Comment, "rangeindex.loop") {
			continue
		}
		for _, name := range inductionVars(l) {
			e, err := ParseSpec("atentry(" + name + ") <= " + name)
			if err != nil {
				continue
			}
			cl := &Clause{Kind: "invariant", Label: "auto-counter-" + name, Expr: e, Text: "atentry(" + name + ") <= " + name + " (automatic)"}
			if l.spec == nil {
				l.spec = &LoopSpec{}
			}
			l.spec = &LoopSpec{Invariants: append(append([]*Clause{}, l.spec.Invariants...), cl), Decreases: l.spec.Decreases, Unroll: l.spec.Unroll}
		}
	}
	if fr.contract != nil {
		for k, ls0 := range fr.contract.Loops {
			// keep the clauses that apply to this build configuration
			ls := &LoopSpec{Decreases: ls0.Decreases, Unroll: ls0.Unroll}
			for _, c := range ls0.Invariants {
				if c.Cfg == "" || c.Cfg == ex.p.cfgName {
					ls.Invariants = append(ls.Invariants, c)
				}
			}
			if len(ls.Invariants) == 0 && len(ls0.Invariants) > 0 {
				continue
			}
			found := false
			for _, l := range fr.loops {
				if l.ordinal == k {
					if l.spec != nil {
						merged := &LoopSpec{Invariants: append(append([]*Clause{}, l.spec.Invariants...), ls.Invariants...), Decreases: ls.Decreases, Unroll: ls.Unroll}
						l.spec = merged
					} else {
						l.spec = ls
					}
					found = true
				}
			}
			if !found && depth == 0 {
				ex.note("contract names loop %d which does not exist in %s", k, fr.key)
				ex.missingLoop = append(ex.missingLoop, fmt.Sprintf("loop %d", k))
			}
		}
	}
	return fr
}

func (fr *Frame) computeLoops() {
	fn := fr.fn
	fr.loops = map[*ssa.BasicBlock]*loopInfo{}
	if len(fn.Blocks) == 0 {
		return
	}
	// back edges
	for _, b := range fn.Blocks {
		for _, s := range b.Succs {
			if s.Dominates(b) {
				l := fr.loops[s]
				if l == nil {
					l = &loopInfo{header: s, body: map[*ssa.BasicBlock]bool{s: true}}
					fr.loops[s] = l
				}
				// collect body: nodes that reach b without passing s
				var stack []*ssa.BasicBlock
				if !l.body[b] {
					l.body[b] = true
					stack = append(stack, b)
				}
				for len(stack) > 0 {
					x := stack[len(stack)-1]
					stack = stack[:len(stack)-1]
					for _, p := range x.Preds {
						if !l.body[p] {
							l.body[p] = true
							stack = append(stack, p)
						}
					}
				}
			}
		}
	}
	var hs []*ssa.BasicBlock
	for h := range fr.loops {
		hs = append(hs, h)
	}
	sort.Slice(hs, func(i, j int) bool { return hs[i].Index < hs[j].Index })
	for i, h := range hs {
		fr.loops[h].ordinal = i + 1
	}
	// reverse postorder over forward edges
	seen := map[*ssa.BasicBlock]bool{}
	var post []*ssa.BasicBlock
	var dfs func(b *ssa.BasicBlock)
	dfs = func(b *ssa.BasicBlock) {
		seen[b] = true
		for _, s := range b.Succs {
			if s.Dominates(b) { // back edge
				continue
			}
			if !seen[s] {
				dfs(s)
			}
		}
		post = append(post, b)
	}
	dfs(fn.Blocks[0])
	for i := len(post) - 1; i >= 0; i-- {
		fr.order = append(fr.order, post[i])
	}
}

func posOf(fn *ssa.Function, p token.Pos) string {
	if !p.IsValid() || fn.Prog == nil {
		return ""
	}
	pp := fn.Prog.Fset.Position(p)
	return fmt.Sprintf("%s:%d", pp.Filename, pp.Line)
}

// ---------- running a function body ----------

// runFrame executes all blocks of fr starting from st; return edges are
// collected in fr.rets.
func (ex *Exec) runFrame(fr *Frame, st *State) {
	if len(fr.fn.Blocks) == 0 {
		return
	}
	edges := map[*ssa.BasicBlock][]inEdge{}
	edges[fr.fn.Blocks[0]] = []inEdge{{from: nil, st: st}}
	ex.runBlocks(fr, fr.order, edges, nil)
}

func (ex *Exec) mergeEdges(ins []inEdge) *State {
	if len(ins) == 1 {
		s := ins[0].st.Clone()
		return s
	}
	// union of keys
	keys := map[string]bool{}
	for _, e := range ins {
		for k := range e.st.cells {
			keys[k] = true
		}
	}
	ks := make([]string, 0, len(keys))
	for k := range keys {
		ks = append(ks, k)
	}
	sort.Strings(ks)
	out := NewState()
	var pcs []Term
	for _, e := range ins {
		pcs = append(pcs, e.st.pc)
	}
	out.pc = ex.name(Or(pcs...), "pc")
	for _, k := range ks {
		var res *Val
		same := true
		var first *Val
		vals := make([]*Val, len(ins))
		for i, e := range ins {
			v, ok := e.st.cells[k]
			if !ok {
				v = ex.baseCell(k)
			}
			vals[i] = v
			if i == 0 {
				first = v
			} else if v != first {
				same = false
			}
		}
		if same {
			if first != nil {
				out.cells[k] = first
			}
			continue
		}
		for i := len(ins) - 1; i >= 0; i-- {
			if vals[i] == nil {
				continue
			}
			if res == nil {
				res = vals[i]
			} else {
				res = ex.ite(ins[i].st.pc, vals[i], res)
			}
		}
		if res != nil {
			out.cells[k] = res
		}
	}
	return out
}

// baseCell returns the value a cell has when no state overlay mentions it.
func (ex *Exec) baseCell(full string) *Val {
	if v, ok := ex.entry[full]; ok {
		return v
	}
	if r, ok := ex.cellMeta[full]; ok {
		return ex.lookupCell(NewState(), r.obj, r.key, r.typ, r.region)
	}
	return nil
}

func (ex *Exec) runBlocks(fr *Frame, order []*ssa.BasicBlock, edges map[*ssa.BasicBlock][]inEdge, dry *loopInfo) {
	for _, b := range order {
		ins := edges[b]
		if len(ins) == 0 {
			continue
		}
		st := ex.mergeEdges(ins)
		fr.phiEdges[b] = ins
		if st.pc.IsFalse() {
			continue
		}
		if l := fr.loops[b]; l != nil && l != dry {
			fr.curBlock = b
			st = ex.enterLoop(fr, l, st)
		}
		ex.execBlock(fr, b, st, edges, dry)
	}
}

func (ex *Exec) loopBodyOrder(fr *Frame, l *loopInfo) []*ssa.BasicBlock {
	var o []*ssa.BasicBlock
	for _, b := range fr.order {
		if l.body[b] {
			o = append(o, b)
		}
	}
	return o
}

func (ex *Exec) enterLoop(fr *Frame, l *loopInfo, st *State) *State {
	pos := ""
	for _, in := range l.header.Instrs {
		if in.Pos().IsValid() {
			pos = posOf(fr.fn, in.Pos())
			break
		}
	}
	ex.specWhere = fmt.Sprintf("loop %d (block %d) entry, quiet=%d", l.ordinal, l.header.Index, ex.quiet)
	defer func() { ex.specWhere = "" }()
	l.pre = st
	ex.filterInvariants(fr, l, st)
	// 1. invariants on entry
	if l.spec != nil {
		for i, c := range l.spec.Invariants {
			gc := ex.goalCtx(fr, st, ex.oldFor(fr), nil)
			gc.loopPre = l.pre
			cj := gc.conjuncts(c.Expr)
			for j, x := range cj {
				nm := fmt.Sprintf("inv-entry(%d)[%s]", l.ordinal, clauseLabel(c, i))
				if len(cj) > 1 {
					nm = fmt.Sprintf("inv-entry(%d)[%s.%d]", l.ordinal, clauseLabel(c, i), j+1)
				}
				ex.oblige(st, "inv-entry", nm, x.T, c.Tags, pos, "invariant "+x.Text)
			}
		}
	}
	// 2. find the cells the body may write (dry runs)
	written := map[string]*writeRec{}
	body := ex.loopBodyOrder(fr, l)
	for iter := 0; iter < 8; iter++ {
		s2 := st.Clone()
		ex.havocWritten(s2, st, written, fmt.Sprintf("L%d", l.ordinal))
		coll := &collector{written: map[string]*writeRec{}, firstID: ex.objCtr + 1}
		ex.colls = append(ex.colls, coll)
		ex.quiet++
		sl, ol := len(ex.script), len(ex.obls)
		savedVals := fr.vals
		fr.vals = make(map[ssa.Value]*Val, len(savedVals))
		for k, v := range savedVals {
			fr.vals[k] = v
		}
		if l.spec != nil {
			for _, c := range l.spec.Invariants {
				ac := ex.rootCtx(fr, s2, ex.oldFor(fr), nil)
				ac.loopPre = l.pre
				ex.assume(s2.pc, ac.bool(c.Expr))
			}
		}
		edges := map[*ssa.BasicBlock][]inEdge{l.header: {{st: s2}}}
		savedRets := fr.rets
		ex.runBlocks(fr, body, edges, l)
		fr.rets = savedRets
		fr.vals = savedVals
		ex.script = ex.script[:sl]
		ex.obls = ex.obls[:ol]
		ex.quiet--
		ex.colls = ex.colls[:len(ex.colls)-1]
		grew := false
		for k, r := range coll.written {
			if w, ok := written[k]; !ok {
				written[k] = r
				grew = true
			} else {
				if len(r.vals) > 0 {
					// new targets?
					before := len(w.vals)
					w.vals = append(w.vals, r.vals...)
					if before == 0 {
						grew = true
					}
				}
			}
		}
		if !grew {
			break
		}
	}
	// propagate to enclosing collectors
	for _, c := range ex.colls {
		for k, r := range written {
			if m, ok := ex.cellMeta[k]; ok && m.obj.ID >= c.firstID {
				continue
			}
			if c.written[k] == nil {
				c.written[k] = r
			}
		}
	}
	// 3. havoc, 4. assume invariants
	pre := st
	st = st.Clone()
	ex.havocWritten(st, pre, written, fmt.Sprintf("L%d", l.ordinal))
	if l.spec != nil {
		for _, c := range l.spec.Invariants {
			ac := ex.rootCtx(fr, st, ex.oldFor(fr), nil)
			ac.loopPre = l.pre
			ex.assume(st.pc, ac.bool(c.Expr))
		}
		if l.spec.Decreases != nil {
			v := ex.evalSpec(fr, l.spec.Decreases, st, ex.oldFor(fr), nil)
			v = ex.coerceInt(v)
			if v.K == KScalar {
				l.decr = ex.name(v.T, "decr")
				l.hasDecr = true
			}
		}
	} else if ex.quiet == 0 && fr.isRoot {
		ex.note("loop %d of %s has no invariant", l.ordinal, fr.key)
	}
	return st
}

// havocWritten replaces every written cell by a fresh value. Pointer and slice
// cells keep the union of the targets they had before the loop and the targets
// written inside it.
func (ex *Exec) havocWritten(st *State, pre *State, written map[string]*writeRec, why string) {
	ks := make([]string, 0, len(written))
	for k := range written {
		ks = append(ks, k)
	}
	sort.Strings(ks)
	for _, k := range ks {
		r := written[k]
		meta, ok := ex.cellMeta[k]
		if !ok {
			continue
		}
		cur, okc := pre.cells[k]
		if !okc {
			cur = ex.baseCell(k)
		}
		nm := why + "." + meta.obj.Name + strings.ReplaceAll(meta.key, "[*]", "")
		var nv *Val
		if meta.region {
			nv = ex.freshArr(meta.typ, nil, nm)
			if nv.K != KArray {
				continue
			}
		} else {
			nv = ex.freshVal(meta.typ, nm)
			if cur != nil && nv.K == KIface && cur.K == KIface && !isErrorType(meta.typ) && len(cur.Cases) > 0 {
				// keep the payload objects (points-to shape); the dynamic type is nil, the previous one, or one written in the loop
				compatible := true
				alts := []Term{Eq(nv.Tag, BVConst(0, 16)), Eq(nv.Tag, cur.Tag)}
				for _, wv := range r.vals {
					if wv.K != KIface {
						continue
					}
					for k, pv := range wv.Cases {
						cp, ok := cur.Cases[k]
						if !ok || len(cp.Tg) != 1 || len(pv.Tg) != 1 || cp.Tg[0].Loc.Obj != pv.Tg[0].Loc.Obj {
							compatible = false
						}
					}
					alts = append(alts, Eq(nv.Tag, wv.Tag))
				}
				if compatible {
					tag := ex.declare(nm+".tag", BV(16))
					for i := range alts {
						alts[i] = Term{S: strings.ReplaceAll(alts[i].S, nv.Tag.S, tag.S), Sort: BoolSort}
					}
					ex.fact(Or(alts...))
					nv = &Val{K: KIface, Typ: cur.Typ, Tag: tag, Cases: cur.Cases}
				}
			}
			if cur != nil && (nv.K == KPtr || nv.K == KSlice) && cur.K == nv.K {
				// union of targets
				var tgs []Target
				add := func(ts []Target) {
				outer:
					for _, t := range ts {
						for _, u := range tgs {
							if u.Loc.Obj == t.Loc.Obj && regionKey(u.Loc) == regionKey(t.Loc) {
								continue outer
							}
						}
						tgs = append(tgs, t)
					}
				}
				add(cur.Tg)
				for _, wv := range r.vals {
					add(wv.Tg)
				}
				if len(tgs) == 1 && !tgs[0].Loc.HasIdx() {
					nv.Tg = []Target{{G: True, Loc: tgs[0].Loc}}
				} else if len(tgs) >= 1 && nv.K == KSlice {
					// slices: keep array location, havoc offset
					var ng []Target
					sel := ex.declare(nm+".which", BV(8))
					for i, t := range tgs {
						g := Eq(sel, BVConst(int64(i), 8))
						if i == len(tgs)-1 {
							var prev []Term
							for j := 0; j < i; j++ {
								prev = append(prev, Eq(sel, BVConst(int64(j), 8)))
							}
							g = Not(Or(prev...))
						}
						ng = append(ng, Target{G: g, Loc: t.Loc})
					}
					nv.Tg = ng
					nv.Off = ex.declare(nm+".off", BV(64))
					ex.fact(And(SLe(BVConst(0, 64), nv.Off), SLe(nv.Off, BVConst(1<<40, 64))))
				}
			}
		}
		st.cells[k] = nv
	}
}

type cellMeta struct {
	obj    *Obj
	key    string
	typ    types.Type
	region bool
}

func clauseLabel(c *Clause, i int) string {
	if c.Label != "" {
		return c.Label
	}
	return fmt.Sprintf("%d", i+1)
}

func (ex *Exec) oldFor(fr *Frame) *State { return ex.oldState }

func (ex *Exec) execBlock(fr *Frame, b *ssa.BasicBlock, st *State, edges map[*ssa.BasicBlock][]inEdge, dry *loopInfo) {
	fr.curBlock = b
	for _, in := range b.Instrs {
		if st.pc.IsFalse() {
			return
		}
		switch i := in.(type) {
		case *ssa.If:
			c := ex.val(fr, i.Cond, st)
			ct := ex.boolTerm(c)
			ex.succ(fr, b, b.Succs[0], st, ct, edges, dry)
			ex.succ(fr, b, b.Succs[1], st, Not(ct), edges, dry)
			return
		case *ssa.Jump:
			ex.succ(fr, b, b.Succs[0], st, True, edges, dry)
			return
		case *ssa.Return:
			var vs []*Val
			for _, r := range i.Results {
				vs = append(vs, ex.val(fr, r, st))
			}
			ex.doReturn(fr, st, vs, i)
			return
		case *ssa.Panic:
			ex.oblige(st, "panic", fmt.Sprintf("panic[%s]", ex.ordinalAt(fr, in)), Not(st.pc), ex.safetyTags(), posOf(fr.fn, i.Pos()), "explicit panic is unreachable")
			return
		default:
			ex.execInstr(fr, in, st)
		}
	}
}

func (ex *Exec) ordinalAt(fr *Frame, in ssa.Instruction) string {
	// ordinal of the instruction among instructions of the same Go type in the function (stable under line shifts)
	n := 0
	tn := fmt.Sprintf("%T", in)
	for _, b := range fr.fn.Blocks {
		for _, x := range b.Instrs {
			if fmt.Sprintf("%T", x) == tn {
				n++
				if x == in {
					if fr.isRoot {
						return fmt.Sprintf("%d", n)
					}
					return fmt.Sprintf("%s.%d", shortFn(fr.key), n)
				}
			}
		}
	}
	return "?"
}

func shortFn(key string) string {
	if i := strings.LastIndex(key, "/"); i >= 0 {
		key = key[i+1:]
	}
	return key
}

func (ex *Exec) succ(fr *Frame, from, to *ssa.BasicBlock, st *State, cond Term, edges map[*ssa.BasicBlock][]inEdge, dry *loopInfo) {
	pc := And(st.pc, cond)
	if pc.IsFalse() {
		return
	}
	ns := st.Clone()
	ns.pc = ex.name(pc, "pc")
	if to.Dominates(from) {
		// back edge
		l := fr.loops[to]
		if l != nil && ex.quiet == 0 {
			pos := ""
			for _, in := range l.header.Instrs {
				if in.Pos().IsValid() {
					pos = posOf(fr.fn, in.Pos())
					break
				}
			}
			if l.spec != nil {
				for i, c := range l.spec.Invariants {
					gc := ex.goalCtx(fr, ns, ex.oldFor(fr), nil)
					gc.loopPre = l.pre
					cj := gc.conjuncts(c.Expr)
					for j, x := range cj {
						nm := fmt.Sprintf("inv-keep(%d)[%s]", l.ordinal, clauseLabel(c, i))
						if len(cj) > 1 {
							nm = fmt.Sprintf("inv-keep(%d)[%s.%d]", l.ordinal, clauseLabel(c, i), j+1)
						}
						ex.oblige(ns, "inv-keep", nm, x.T, c.Tags, pos, "invariant "+x.Text)
					}
				}
				if l.hasDecr {
					v := ex.coerceInt(ex.evalSpec(fr, l.spec.Decreases, ns, ex.oldFor(fr), nil))
					if v.K == KScalar && v.T.Sort == l.decr.Sort {
						g := And(SLe(BVConst(0, l.decr.Sort.W), l.decr), SLt(v.T, l.decr))
						ex.oblige(ns, "decr", fmt.Sprintf("decr(%d)", l.ordinal), g, nil, pos, "decreases "+l.spec.Decreases.String())
					}
				}
			}
		}
		return
	}
	if dry != nil && !dry.body[to] {
		return // leaves the loop being dry-run
	}
	edges[to] = append(edges[to], inEdge{from: from, st: ns})
}

func (ex *Exec) safetyTags() []string { return nil }

func (ex *Exec) boolTerm(v *Val) Term {
	if v != nil && v.K == KScalar && v.T.Sort.K == SBool {
		return v.T
	}
	if v != nil && v.K == KUntyped {
		return BoolConst(v.C.Sign() != 0)
	}
	ex.note("non-boolean condition")
	return ex.declare("cond", BoolSort)
}

// val returns the value of an SSA operand.
func (ex *Exec) val(fr *Frame, v ssa.Value, st *State) *Val {
	switch x := v.(type) {
	case *ssa.Const:
		return ex.constVal(x)
	case *ssa.Global:
		o := ex.globalObj(x)
		return &Val{K: KPtr, Typ: x.Type(), IsNil: False, Tg: []Target{{G: True, Loc: Loc{Obj: o}}}}
	case *ssa.Function:
		return &Val{K: KFunc, Typ: x.Type(), Fn: x, IsNil: False}
	case *ssa.Builtin:
		return &Val{K: KFunc, Typ: x.Type(), Fn: x, IsNil: False}
	case *ssa.FreeVar:
		for i, fv := range fr.fn.FreeVars {
			if fv == x && fr.bindings != nil && i < len(fr.bindings) {
				return fr.bindings[i]
			}
		}
		return ex.freshVal(x.Type(), "freevar")
	}
	if r, ok := fr.vals[v]; ok {
		return r
	}
	ex.note("use of undefined SSA value %s in %s", v.Name(), fr.key)
	r := ex.freshVal(v.Type(), "undef")
	fr.vals[v] = r
	return r
}

func (ex *Exec) globalObj(g *ssa.Global) *Obj {
	if o, ok := ex.globals[g]; ok {
		return o
	}
	o := ex.newObj(g.Pkg.Pkg.Name()+"."+g.Name(), g.Type().(*types.Pointer).Elem())
	o.Symbolic = true
	o.Global = true
	ex.globals[g] = o
	if _, isFn := under(o.Typ).(*types.Signature); isFn {
		full := fmt.Sprintf("%d|", o.ID)
		ex.entry[full] = &Val{K: KFunc, Typ: o.Typ, IsNil: False, FnVar: g.Pkg.Pkg.Path() + "." + g.Name()}
		ex.cellMeta[full] = cellMeta{obj: o, key: "", typ: o.Typ}
	}
	// error sentinels are constants
	if isErrorType(o.Typ) {
		full := fmt.Sprintf("%d|", o.ID)
		ex.entry[full] = &Val{K: KScalar, Typ: o.Typ, T: ex.p.errConst(g.Pkg.Pkg.Path() + "." + g.Name())}
		ex.cellMeta[full] = cellMeta{obj: o, key: "", typ: o.Typ}
	}
	return o
}

func (ex *Exec) constVal(c *ssa.Const) *Val {
	t := c.Type()
	if c.Value == nil {
		return ex.zeroVal(t)
	}
	if isBool(t) {
		return &Val{K: KScalar, Typ: t, T: BoolConst(constant.BoolVal(c.Value))}
	}
	if w, _, ok := intWidth(t); ok {
		if c.Value.Kind() == constant.Int {
			bi, _ := new(big.Int).SetString(c.Value.ExactString(), 10)
			return &Val{K: KScalar, Typ: t, T: BVConstBig(bi, w)}
		}
	}
	if isString(t) {
		s := constant.StringVal(c.Value)
		return &Val{K: KString, Typ: t, Len: BVConst(int64(len(s)), 64), T: ex.p.strConst(s)}
	}
	return &Val{K: KOpaque, Typ: t}
}

func (p *Prog) strConst(s string) Term {
	if s == "" {
		return BVConst(0, 64)
	}
	if p.strIDs == nil {
		p.strIDs = map[string]int{}
	}
	id, ok := p.strIDs[s]
	if !ok {
		id = len(p.strIDs) + 1
		p.strIDs[s] = id
	}
	return BVConst(int64(id), 64)
}

func (ex *Exec) doReturn(fr *Frame, st *State, vs []*Val, ret *ssa.Return) {
	fr.retCount++
	if fr.isRoot && ex.quiet == 0 {
		ex.checkPost(fr, st, vs, returnOrdinal(fr.fn, ret), posOf(fr.fn, ret.Pos()))
	}
	fr.rets = append(fr.rets, retEdge{st: st, vals: vs})
}

func (ex *Exec) setVal(fr *Frame, v ssa.Value, x *Val) {
	if x != nil && x.K == KScalar {
		x = &Val{K: KScalar, Typ: x.Typ, T: ex.name(x.T, v.Name())}
	}
	fr.vals[v] = x
}

// returnOrdinal numbers the return statements of a function in source (block) order.
func returnOrdinal(fn *ssa.Function, ret *ssa.Return) int {
	n := 0
	for _, b := range fn.Blocks {
		for _, in := range b.Instrs {
			if r, ok := in.(*ssa.Return); ok {
				n++
				if r == ret {
					return n
				}
			}
		}
	}
	return 0
}


// inductionVars finds the counters of a loop: named signed-integer locals declared outside the loop whose only
// store inside the loop is v = v + 1 and which the loop condition compares with < or <=.
func inductionVars(l *loopInfo) []string {
	var out []string
	ifi, ok := l.header.Instrs[len(l.header.Instrs)-1].(*ssa.If)
	if !ok {
		return nil
	}
	cond, ok := ifi.Cond.(*ssa.BinOp)
	if !ok || (cond.Op != token.LSS && cond.Op != token.LEQ) {
		return nil
	}
	ld, ok := cond.X.(*ssa.UnOp)
	if !ok || ld.Op != token.MUL {
		return nil
	}
	a, ok := ld.X.(*ssa.Alloc)
	if !ok || a.Comment == "" || l.body[a.Block()] {
		return nil
	}
	if b, ok := a.Type().Underlying().(*types.Pointer).Elem().Underlying().(*types.Basic); !ok || b.Info()&types.IsInteger == 0 || b.Info()&types.IsUnsigned != 0 {
		return nil
	}
	stores := 0
	good := false
	for b := range l.body {
		for _, in := range b.Instrs {
			st, ok := in.(*ssa.Store)
			if !ok || st.Addr != ssa.Value(a) {
				continue
			}
			stores++
			if add, ok := st.Val.(*ssa.BinOp); ok && add.Op == token.ADD {
				if x, ok := add.X.(*ssa.UnOp); ok && x.Op == token.MUL && x.X == ssa.Value(a) {
					if c, ok := add.Y.(*ssa.Const); ok && c.Value != nil && c.Int64() == 1 {
						good = true
					}
				}
			}
		}
	}
	// the address must not escape to calls inside the loop (then other writes are possible)
	for b := range l.body {
		for _, in := range b.Instrs {
			if c, ok := in.(ssa.CallInstruction); ok {
				for _, arg := range c.Common().Args {
					if arg == ssa.Value(a) {
						return nil
					}
				}
			}
		}
	}
	if stores == 1 && good {
		out = append(out, a.Comment)
	}
	return out
}


// filterInvariants drops, once per loop, the conjuncts of loop invariants that cannot be evaluated at the loop
// head because a name they use does not exist (any more). An invariant is an auxiliary assertion-and-assumption:
// removing a conjunct can only make later obligations harder to prove, never hide a violated property clause, so
// this is sound; it keeps a contract usable after a harmless rename or restructuring of loop-local variables. The
// dropped conjuncts are listed in the notes (and counted in the summary line).
func (ex *Exec) filterInvariants(fr *Frame, l *loopInfo, st *State) {
	if l.filtered || l.spec == nil {
		return
	}
	l.filtered = true
	var out []*Clause
	changed := false
	for _, c := range l.spec.Invariants {
		parts := splitTopAnd(c.Expr)
		var keep []*SExpr
		for _, p := range parts {
			if bad := ex.unresolvedName(fr, p, map[string]bool{}); bad != "" {
				ex.staleInv = append(ex.staleInv, fmt.Sprintf("loop %d of %s: invariant conjunct `%s` ignored (no variable, parameter, constant or ghost named %s is in scope at the loop)", l.ordinal, fr.key, p.String(), bad))
				changed = true
				continue
			}
			keep = append(keep, p)
		}
		if len(keep) == len(parts) {
			out = append(out, c)
			continue
		}
		if len(keep) == 0 {
			continue
		}
		e := keep[0]
		for _, k := range keep[1:] {
			e = &SExpr{Op: "bin", Name: "&&", Args: []*SExpr{e, k}}
		}
		c2 := *c
		c2.Expr = e
		out = append(out, &c2)
	}
	if changed {
		l.spec = &LoopSpec{Invariants: out, Decreases: l.spec.Decreases, Unroll: l.spec.Unroll}
	}
}

func splitTopAnd(e *SExpr) []*SExpr {
	if e.Op == "bin" && e.Name == "&&" {
		return append(splitTopAnd(e.Args[0]), splitTopAnd(e.Args[1])...)
	}
	return []*SExpr{e}
}


// unresolvedName returns the first plain identifier of a specification expression that resolves to nothing at the
// loop head (purely syntactic: no evaluation, no side effects), or "".
func (ex *Exec) unresolvedName(fr *Frame, e *SExpr, bound map[string]bool) string {
	if e == nil {
		return ""
	}
	switch e.Op {
	case "id":
		n := e.Name
		if bound[n] || n == "nil" || n == "true" || n == "false" || n == "rangeindex" || n == "result" || strings.HasPrefix(n, "result") {
			return ""
		}
		if fr.latestAlloc(n) != nil || len(fr.byName[n]) > 0 {
			return ""
		}
		for _, p := range fr.fn.Params {
			if p.Name() == n {
				return ""
			}
		}
		if fr.contract != nil {
			for _, pn := range fr.contract.ParamNames {
				if pn == n {
					return ""
				}
			}
		}
		if _, ok := ex.p.cs.Ghosts[n]; ok {
			return ""
		}
		if _, ok := ex.p.cs.Pures[n]; ok {
			return ""
		}
		pkg := ""
		if fr.fn.Pkg != nil {
			pkg = fr.fn.Pkg.Pkg.Path()
		}
		for _, sp := range ex.p.ssaProg.AllPackages() {
			if sp.Pkg.Path() == pkg && sp.Pkg.Scope().Lookup(n) != nil {
				return ""
			}
		}
		if ex.p.pkgPathByName(n) != "" {
			return "" // a package qualifier (io.EOF, ...)
		}
		return n
	case "forall", "exists":
		b2 := map[string]bool{}
		for k := range bound {
			b2[k] = true
		}
		b2[e.Name] = true
		for _, a := range e.Args {
			if r := ex.unresolvedName(fr, a, b2); r != "" {
				return r
			}
		}
		return ""
	case "sel":
		// only the base expression can name a variable; the field name is checked by evaluation
		if len(e.Args) > 0 {
			return ex.unresolvedName(fr, e.Args[0], bound)
		}
		return ""
	case "call":
		for _, a := range e.Args {
			if r := ex.unresolvedName(fr, a, bound); r != "" {
				return r
			}
		}
		return ""
	}
	for _, a := range e.Args {
		if r := ex.unresolvedName(fr, a, bound); r != "" {
			return r
		}
	}
	return ""
}
