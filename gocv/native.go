package main

import (
	"fmt"
	"go/types"
	"strings"

	"golang.org/x/tools/go/ssa"
)

func (ex *Exec) builtin(fr *Frame, st *State, ci *ssa.Call, name string, args []*Val, sargs []ssa.Value, rt types.Type, pos string) *Val {
	intT := types.Typ[types.Int]
	switch name {
	case "len", "cap":
		x := args[0]
		switch x.K {
		case KSlice:
			if name == "len" {
				return &Val{K: KScalar, Typ: intT, T: x.Len}
			}
			return &Val{K: KScalar, Typ: intT, T: x.Cap}
		case KString:
			return &Val{K: KScalar, Typ: intT, T: x.Len}
		case KArray:
			if at, ok := under(sargs[0].Type()).(*types.Array); ok {
				return &Val{K: KScalar, Typ: intT, T: BVConst(at.Len(), 64)}
			}
		case KPtr:
			if pt, ok := under(sargs[0].Type()).(*types.Pointer); ok {
				if at, ok := under(pt.Elem()).(*types.Array); ok {
					return &Val{K: KScalar, Typ: intT, T: BVConst(at.Len(), 64)}
				}
			}
		}
		ex.note("len/cap of unsupported value in %s", fr.key)
		return ex.freshVal(intT, "len")
	case "copy":
		dst, src := args[0], args[1]
		if dst.K != KSlice {
			return ex.freshVal(intT, "copy")
		}
		var srcLen Term
		switch src.K {
		case KSlice, KString:
			srcLen = src.Len
		default:
			return ex.freshVal(intT, "copy")
		}
		n := ex.name(Ite(SLt(dst.Len, srcLen), dst.Len, srcLen), "copyn")
		ex.checkFrameSlice(fr, st, dst, ci)
		ex.copyElems(fr, st, dst, src, n)
		return &Val{K: KScalar, Typ: intT, T: n}
	case "append":
		return ex.appendOp(fr, st, ci, args, rt, pos)
	case "panic":
		ex.oblige(st, "panic", fmt.Sprintf("panic[%s]", ex.ordinalAt(fr, ci)), Not(st.pc), nil, pos, "explicit panic is unreachable")
		st.pc = False
		return &Val{K: KTuple, Typ: rt}
	case "min", "max":
		if len(args) == 2 && args[0].K == KScalar && args[1].K == KScalar {
			_, signed, _ := intWidth(rt)
			var lt Term
			if signed {
				lt = SLt(args[0].T, args[1].T)
			} else {
				lt = ULt(args[0].T, args[1].T)
			}
			if name == "min" {
				return &Val{K: KScalar, Typ: rt, T: Ite(lt, args[0].T, args[1].T)}
			}
			return &Val{K: KScalar, Typ: rt, T: Ite(lt, args[1].T, args[0].T)}
		}
	case "ssa:wrapnilchk":
		return args[0]
	case "ssa:deferstack":
		return &Val{K: KOpaque, Typ: rt}
	case "print", "println":
		return &Val{K: KTuple, Typ: rt}
	}
	ex.note("unsupported builtin %s in %s", name, fr.key)
	return ex.freshResult(rt, "builtin")
}

func (ex *Exec) checkFrameSlice(fr *Frame, st *State, dst *Val, in ssa.Instruction) {
	if ex.quiet > 0 || !ex.hasMods {
		return
	}
	for _, t := range dst.Tg {
		if !ex.covered(t.Loc.Obj, regionKey(t.Loc)+"[*]") {
			ex.oblige(st, "frame", fmt.Sprintf("frame[copy:%s]", ex.ordinalAt(fr, in)), Not(t.G), nil, posOf(fr.fn, in.Pos()),
				fmt.Sprintf("write to %s[*] is not covered by the modifies clause", t.Loc.String()))
		}
	}
}

// elemLeaves lists the leaf sub-paths (field chains) of an element type.
func (ex *Exec) elemLeaves(t types.Type) (paths [][]Step, typs []types.Type) {
	var rec func(t types.Type, pre []Step)
	rec = func(t types.Type, pre []Step) {
		if st, ok := under(t).(*types.Struct); ok && !ex.isOpaqueStruct(t) {
			for i := 0; i < st.NumFields(); i++ {
				rec(st.Field(i).Type(), append(append([]Step{}, pre...), Step{Field: i, Name: st.Field(i).Name()}))
			}
			return
		}
		paths = append(paths, pre)
		typs = append(typs, t)
	}
	rec(t, nil)
	return
}

func (ex *Exec) copyElems(fr *Frame, st *State, dst, src *Val, n Term) {
	if len(dst.Tg) != 1 || (src.K == KSlice && len(src.Tg) != 1) {
		// several candidate objects: havoc the destinations
		if len(dst.Tg) > 0 {
			ex.note("copy with several candidate objects in %s: destination havocked", fr.key)
		}
		for _, t := range dst.Tg {
			ex.havocPrefix(st, t.Loc.Obj, regionKey(t.Loc)+"[*]", "copy")
		}
		return
	}
	dt := dst.Tg[0]
	et := under(dst.Typ).(*types.Slice).Elem()
	paths, typs := ex.elemLeaves(et)
	for pi, pth := range paths {
		w, _, ok := intWidth(typs[pi])
		if !ok {
			if isBool(typs[pi]) {
				w = 8
			} else {
				ex.note("copy of non-integer elements in %s", fr.key)
				continue
			}
		}
		dl := Loc{Obj: dt.Loc.Obj, Steps: append(append(append([]Step{}, dt.Loc.Steps...), Step{IsIdx: true, Idx: BVConst(0, 64)}), pth...)}
		dcell := ex.lookupCell(st, dl.Obj, regionKey(dl), typs[pi], true)
		if dcell.K != KArray || !dcell.T.Valid() {
			continue
		}
		var scellT Term
		hasSrc := false
		if src.K == KSlice {
			stg := src.Tg[0]
			sl := Loc{Obj: stg.Loc.Obj, Steps: append(append(append([]Step{}, stg.Loc.Steps...), Step{IsIdx: true, Idx: BVConst(0, 64)}), pth...)}
			sc := ex.lookupCell(st, sl.Obj, regionKey(sl), typs[pi], true)
			if sc.K == KArray && sc.T.Valid() {
				scellT = sc.T
				hasSrc = true
			}
		}
		na := ex.declare("cp."+dl.Obj.Name, Arr(w))
		ex.record(dl, nil)
		ex.ctr++
		iv := fmt.Sprintf("i!c%d", ex.ctr)
		i := Var(iv, BV(64))
		inr := And(SLe(dst.Off, i), SLt(i, Add(dst.Off, n)))
		var body Term
		if hasSrc {
			sidx := Add(Sub(i, dst.Off), src.Off)
			body = Eq(Select(na, i), Ite(inr, Select(scellT, sidx), Select(dcell.T, i)))
		} else {
			body = Implies(Not(inr), Eq(Select(na, i), Select(dcell.T, i)))
		}
		ex.script = append(ex.script, fmt.Sprintf("(assert (forall ((%s (_ BitVec 64))) (! %s :pattern ((select %s %s)))))", iv, body.S, na.S, iv))
		st.cells[dl.Key()] = &Val{K: KArray, Elem: typs[pi], T: na}
		ex.cellMeta[dl.Key()] = cellMeta{obj: dl.Obj, key: regionKey(dl), typ: typs[pi], region: true}
	}
}

func (ex *Exec) appendOp(fr *Frame, st *State, ci *ssa.Call, args []*Val, rt types.Type, pos string) *Val {
	s, t := args[0], args[1]
	if s.K != KSlice || (t.K != KSlice && t.K != KString) {
		ex.note("unsupported append in %s", fr.key)
		return ex.freshVal(rt, "append")
	}
	et := under(rt).(*types.Slice).Elem()
	n := t.Len
	newLen := ex.name(Add(s.Len, n), "alen")
	fits := ex.name(SLe(newLen, s.Cap), "afits")
	// in-place branch
	inPlace := &Val{K: KSlice, Typ: rt, IsNil: False, Tg: s.Tg, Off: s.Off, Len: newLen, Cap: s.Cap}
	if fr.isRoot && fr.contract != nil && len(fr.contract.NoGrow) > 0 {
		if _, k := callOrdinal(fr.fn, ci); fr.contract.NoGrow[k] {
			// the contract states that this append never reallocates: prove it, then model the in-place result only
			ex.oblige(st, "assert", fmt.Sprintf("nogrow[append:%d]", k), fits, nil, pos, "append stays within the capacity (nogrow)")
			ex.assume(st.pc, fits)
			ex.nogrowHit[k] = true
			fits = True
		}
	}
	// fresh branch
	o := ex.newObj(fmt.Sprintf("grown%d", ex.objCtr+1), et)
	o.Backing = true
	o.Fresh = true
	o.Symbolic = true
	ncap := ex.declare("acap", BV(64))
	ex.fact(SLe(ncap, BVConst(1<<40, 64)))
	ex.assume(st.pc, Implies(Not(fits), SLe(newLen, ncap)))
	grown := &Val{K: KSlice, Typ: rt, IsNil: False, Tg: []Target{{G: True, Loc: Loc{Obj: o}}}, Off: BVConst(0, 64), Len: newLen, Cap: ncap}
	// the grown backing array starts as a copy of the old elements
	if !fits.IsTrue() && len(s.Tg) == 1 {
		oldView := &Val{K: KSlice, Typ: rt, IsNil: False, Tg: grown.Tg, Off: BVConst(0, 64), Len: s.Len, Cap: s.Len}
		ex.copyElems(fr, st, oldView, s, s.Len)
	}
	// element write(s)
	if fits.IsTrue() || true {
		// write into the in-place candidate under guard fits (single element fast path)
		if t.K == KSlice && n.Const != nil && n.Const.Int64() == 1 && len(t.Tg) == 1 && len(s.Tg) >= 1 {
			tt := t.Tg[0]
			ev := ex.load(st, tt.Loc.Index(t.Off, 0), et)
			for _, tg := range s.Tg {
				dl := tg.Loc.Index(ex.name(Add(s.Off, s.Len), "ai"), 0)
				oldv := ex.load(st, dl, et)
				ex.checkFrameAppend(fr, st, tg, fits, ci)
				ex.storeT(st, dl, ex.ite(And(fits, tg.G), ev, oldv), et)
			}
			// grown object: element at index len
			ex.storeT(st, Loc{Obj: o}.Index(s.Len, 0), ev, et)
		} else if t.K == KSlice {
			dstView := &Val{K: KSlice, Typ: rt, Tg: s.Tg, Off: ex.name(Add(s.Off, s.Len), "ao"), Len: n, Cap: n}
			if len(s.Tg) == 1 {
				// conditional bulk copy: copy n' = fits ? n : 0 elements
				ex.checkFrameAppend(fr, st, s.Tg[0], fits, ci)
				ex.copyElems(fr, st, dstView, t, ex.name(Ite(fits, n, BVConst(0, 64)), "an"))
			} else if len(s.Tg) > 1 {
				ex.note("append to slice with several candidate objects in %s", fr.key)
			}
		}
	}
	if fits.IsTrue() {
		return inPlace
	}
	return ex.ite(fits, inPlace, grown)
}

func (ex *Exec) checkFrameAppend(fr *Frame, st *State, tg Target, fits Term, in ssa.Instruction) {
	if ex.quiet > 0 || !ex.hasMods {
		return
	}
	if !ex.covered(tg.Loc.Obj, regionKey(tg.Loc)+"[*]") {
		ex.oblige(st, "frame", fmt.Sprintf("frame[append:%s]", ex.ordinalAt(fr, in)), Not(And(fits, tg.G)), nil, posOf(fr.fn, in.Pos()),
			fmt.Sprintf("append writes %s[*] in place, not covered by the modifies clause", tg.Loc.String()))
	}
}

// ---------- native models of standard-library leaf functions ----------

func clz(x Term) Term {
	w := x.Sort.W
	res := BVConst(int64(w), w)
	for i := 0; i < w; i++ {
		// highest set bit wins: iterate from low to high so that the outermost ite is the highest bit
		bit := Eq(Extract(x, i, i), BVConst(1, 1))
		res = Ite(bit, BVConst(int64(w-1-i), w), res)
	}
	return res
}

func ctz(x Term) Term {
	w := x.Sort.W
	res := BVConst(int64(w), w)
	for i := w - 1; i >= 0; i-- {
		bit := Eq(Extract(x, i, i), BVConst(1, 1))
		res = Ite(bit, BVConst(int64(i), w), res)
	}
	return res
}

func bitlen(x Term) Term {
	w := x.Sort.W
	return Sub(BVConst(int64(w), w), clz(x))
}

func reverseBits(x Term) Term {
	w := x.Sort.W
	acc := Extract(x, 0, 0)
	for i := 1; i < w; i++ {
		acc = Concat(acc, Extract(x, i, i))
	}
	return acc
}

func (ex *Exec) native(fr *Frame, st *State, ci *ssa.Call, key string, fn *ssa.Function, args []*Val, rt types.Type, pos string) (*Val, bool) {
	intT := types.Typ[types.Int]
	sc := func(i int) (Term, bool) {
		if i < len(args) && args[i].K == KScalar && args[i].T.Sort.K == SBV {
			return args[i].T, true
		}
		return Term{}, false
	}
	if strings.HasPrefix(key, "math/bits.") {
		x, ok := sc(0)
		if !ok {
			return nil, false
		}
		name := strings.TrimPrefix(key, "math/bits.")
		switch name {
		case "LeadingZeros", "LeadingZeros64", "LeadingZeros32", "LeadingZeros16", "LeadingZeros8":
			return &Val{K: KScalar, Typ: intT, T: ex.name(ZExt(clz(x), 64), "clz")}, true
		case "TrailingZeros", "TrailingZeros64", "TrailingZeros32", "TrailingZeros16", "TrailingZeros8":
			return &Val{K: KScalar, Typ: intT, T: ex.name(ZExt(ctz(x), 64), "ctz")}, true
		case "Len", "Len64", "Len32", "Len16", "Len8":
			return &Val{K: KScalar, Typ: intT, T: ex.name(ZExt(bitlen(x), 64), "blen")}, true
		case "Reverse16", "Reverse8", "Reverse32", "Reverse64":
			return &Val{K: KScalar, Typ: rt, T: ex.name(reverseBits(x), "rev")}, true
		}
		return nil, false
	}
	if strings.HasPrefix(key, "(encoding/binary.littleEndian).") || strings.HasPrefix(key, "(encoding/binary.bigEndian).") {
		little := strings.Contains(key, "littleEndian")
		name := key[strings.LastIndex(key, ".")+1:]
		var nbytes int
		switch name {
		case "Uint16", "PutUint16":
			nbytes = 2
		case "Uint32", "PutUint32":
			nbytes = 4
		case "Uint64", "PutUint64":
			nbytes = 8
		default:
			return nil, false
		}
		if len(args) < 2 || args[1].K != KSlice {
			return nil, false
		}
		b := args[1]
		ex.oblige(st, "bounds", fmt.Sprintf("bounds[binary:%s]", ex.ordinalAt(fr, ci)), SLe(BVConst(int64(nbytes), 64), b.Len), nil, pos, fmt.Sprintf("encoding/binary access needs %d bytes", nbytes))
		if len(b.Tg) != 1 {
			if strings.HasPrefix(name, "Put") {
				for _, t := range b.Tg {
					ex.havocPrefix(st, t.Loc.Obj, regionKey(t.Loc)+"[*]", "put")
				}
				return &Val{K: KTuple, Typ: rt}, true
			}
			// load through several candidates
			var res *Val
			for k := len(b.Tg) - 1; k >= 0; k-- {
				v := ex.binLoad(st, b, b.Tg[k], nbytes, little, rt)
				if res == nil {
					res = v
				} else {
					res = ex.ite(b.Tg[k].G, v, res)
				}
			}
			if res == nil {
				res = ex.freshVal(rt, "binload")
			}
			return res, true
		}
		tg := b.Tg[0]
		byteT := types.Typ[types.Uint8]
		if strings.HasPrefix(name, "Put") {
			v, ok := sc(2)
			if !ok {
				return nil, false
			}
			ex.checkFrameSlice(fr, st, b, ci)
			for j := 0; j < nbytes; j++ {
				k := j
				if !little {
					k = nbytes - 1 - j
				}
				piece := Extract(v, (k+1)*8-1, k*8)
				ex.storeLeaf(st, tg.Loc.Index(ex.name(Add(b.Off, BVConst(int64(j), 64)), "bi"), 0), &Val{K: KScalar, Typ: byteT, T: piece}, byteT)
			}
			return &Val{K: KTuple, Typ: rt}, true
		}
		return ex.binLoad(st, b, tg, nbytes, little, rt), true
	}
	switch key {
	case "unsafe.Pointer":
		return nil, false
	}
	return nil, false
}

func (ex *Exec) binLoad(st *State, b *Val, tg Target, nbytes int, little bool, rt types.Type) *Val {
	byteT := types.Typ[types.Uint8]
	var acc Term
	for j := 0; j < nbytes; j++ {
		v := ex.loadLeaf(st, tg.Loc.Index(Add(b.Off, BVConst(int64(j), 64)), 0), byteT)
		if v.K != KScalar {
			return ex.freshVal(rt, "binload")
		}
		if j == 0 {
			acc = v.T
		} else if little {
			acc = Concat(v.T, acc)
		} else {
			acc = Concat(acc, v.T)
		}
	}
	return &Val{K: KScalar, Typ: rt, T: ex.name(acc, "bin")}
}
