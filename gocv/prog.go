package main

import (
	"fmt"
	"go/types"
	"os"
	"path/filepath"
	"sort"
	"strings"

	"golang.org/x/tools/go/packages"
	"golang.org/x/tools/go/ssa"
	"golang.org/x/tools/go/ssa/ssautil"
)

type Prog struct {
	cfgName    string
	repo       string
	modulePath string
	pkgs       []*packages.Package
	ssaProg    *ssa.Program
	spkgs      []*ssa.Package
	funcs      map[string]*ssa.Function
	cs         *Contracts
	typeTags   map[string]int
	errIDs     map[string]int
	namedTypes map[string]types.Type // type key -> type (module + seen)
	implCache  map[string][]types.Type
	allConcrete []types.Type
	strIDs map[string]int
}

const modulePathDefault = "github.com/intel/fastgo"

func goEnv() []string {
	env := os.Environ()
	env = append(env, "GOFLAGS=-mod=mod", "GOPROXY=off", "GOSUMDB=off", "GOTOOLCHAIN=local", "GOARCH=amd64", "GOOS=linux", "CGO_ENABLED=0")
	return env
}

func LoadProg(repo, cfgName string, tags string, cs *Contracts) (*Prog, error) {
	cfg := &packages.Config{Mode: packages.LoadAllSyntax, Dir: repo, BuildFlags: []string{"-tags=" + tags}, Env: goEnv()}
	pkgs, err := packages.Load(cfg, "./...")
	if err != nil {
		return nil, err
	}
	var errs []string
	packages.Visit(pkgs, nil, func(p *packages.Package) {
		for _, e := range p.Errors {
			errs = append(errs, e.Error())
		}
	})
	if len(errs) > 0 {
		return nil, fmt.Errorf("load errors: %s", strings.Join(errs, "; "))
	}
	prog, spkgs := ssautil.AllPackages(pkgs, ssa.NaiveForm|ssa.GlobalDebug)
	prog.Build()
	p := &Prog{cfgName: cfgName, repo: repo, modulePath: modulePathDefault, pkgs: pkgs, ssaProg: prog, spkgs: spkgs,
		funcs: map[string]*ssa.Function{}, cs: cs, typeTags: map[string]int{}, errIDs: map[string]int{}, namedTypes: map[string]types.Type{}, implCache: map[string][]types.Type{}}
	for fn := range ssautil.AllFunctions(prog) {
		if fn.Pkg == nil || fn.Synthetic != "" && !strings.HasPrefix(fn.Name(), "init") {
			continue
		}
		p.funcs[FuncKey(fn)] = fn
	}
	// error sentinels: every package-level variable of type error in the loaded program
	var names []string
	for _, sp := range prog.AllPackages() {
		for _, m := range sp.Members {
			if g, ok := m.(*ssa.Global); ok {
				if pt, ok := g.Type().(*types.Pointer); ok && isErrorType(pt.Elem()) {
					names = append(names, g.Pkg.Pkg.Path()+"."+g.Name())
				}
			}
			if tn, ok := m.(*ssa.Type); ok {
				p.namedTypes[typeKey(tn.Type())] = tn.Type()
				if strings.HasPrefix(sp.Pkg.Path(), p.modulePath) || sp.Pkg.Path() == "bufio" || sp.Pkg.Path() == "compress/flate" {
					if _, isIface := tn.Type().Underlying().(*types.Interface); !isIface {
						p.allConcrete = append(p.allConcrete, tn.Type(), types.NewPointer(tn.Type()))
					}
				}
			}
		}
	}
	sort.Strings(names)
	for i, n := range names {
		p.errIDs[n] = i + 2
	}
	sort.Slice(p.allConcrete, func(i, j int) bool { return typeKey(p.allConcrete[i]) < typeKey(p.allConcrete[j]) })
	return p, nil
}

func FuncKey(fn *ssa.Function) string {
	if strings.HasPrefix(fn.Name(), "init#") || fn.Synthetic == "package initializer" {
		return fn.String()
	}
	if o, ok := fn.Object().(*types.Func); ok && o != nil {
		return o.FullName()
	}
	return fn.String()
}

func (p *Prog) typeTag(t types.Type) int {
	k := typeKey(t)
	if n, ok := p.typeTags[k]; ok {
		return n
	}
	// deterministic: tags follow first use order; include a hash-free counter starting at 2
	n := len(p.typeTags) + 2
	p.typeTags[k] = n
	p.namedTypes[k] = t
	return n
}

func (p *Prog) basicType(name string) types.Type {
	switch name {
	case "error":
		return types.Universe.Lookup("error").Type()
	case "byte":
		return types.Typ[types.Uint8]
	}
	if o := types.Universe.Lookup(name); o != nil {
		return o.Type()
	}
	panic("unknown basic type " + name)
}

// resolveType resolves a type written in a contract relative to package pkg.
func (p *Prog) resolveType(pkg, s string) types.Type {
	s = strings.TrimSpace(s)
	if strings.HasPrefix(s, "*") {
		t := p.resolveType(pkg, s[1:])
		if t == nil {
			return nil
		}
		return types.NewPointer(t)
	}
	if strings.HasPrefix(s, "[]") {
		t := p.resolveType(pkg, s[2:])
		if t == nil {
			return nil
		}
		return types.NewSlice(t)
	}
	if isBasicTypeName(s) {
		return p.basicType(s)
	}
	var path, name string
	if i := strings.LastIndex(s, "."); i >= 0 {
		path, name = s[:i], s[i+1:]
	} else {
		path, name = pkg, s
	}
	for _, sp := range p.ssaProg.AllPackages() {
		if sp.Pkg.Path() == path || (!strings.Contains(path, "/") && sp.Pkg.Name() == path && !strings.Contains(sp.Pkg.Path(), "/internal/") && (sp.Pkg.Path() == path || strings.HasSuffix(sp.Pkg.Path(), "/"+path) && !strings.HasPrefix(sp.Pkg.Path(), p.modulePath))) {
			if o := sp.Pkg.Scope().Lookup(name); o != nil {
				if tn, ok := o.(*types.TypeName); ok {
					return tn.Type()
				}
			}
		}
	}
	return nil
}

// candidates returns the concrete dynamic types an unknown value of interface
// type t may have, and whether an opaque "other" type is possible.
func (p *Prog) candidates(t types.Type) (cands []types.Type, other bool) {
	k := typeKey(t)
	it, _ := under(t).(*types.Interface)
	declaredInModule := false
	if n, ok := types.Unalias(t).(*types.Named); ok && n.Obj().Pkg() != nil && strings.HasPrefix(n.Obj().Pkg().Path(), p.modulePath) {
		declaredInModule = true
	}
	if decl, ok := p.cs.Impls[k]; ok {
		for _, d := range decl {
			if d == "other" {
				other = true
				continue
			}
			if ty := p.resolveType("", d); ty != nil {
				cands = append(cands, ty)
			} else {
				fmt.Fprintf(os.Stderr, "gocv: implementers: cannot resolve %s\n", d)
			}
		}
		return cands, other
	}
	if !declaredInModule || it == nil {
		return nil, true
	}
	if c, ok := p.implCache[k]; ok {
		return c, false
	}
	for _, c := range p.allConcrete {
		if n, ok := c.(*types.Pointer); ok {
			if nn, ok := n.Elem().(*types.Named); ok && nn.Obj().Pkg() != nil && !strings.HasPrefix(nn.Obj().Pkg().Path(), p.modulePath) {
				continue
			}
		} else if nn, ok := c.(*types.Named); ok && nn.Obj().Pkg() != nil && !strings.HasPrefix(nn.Obj().Pkg().Path(), p.modulePath) {
			continue
		}
		if types.Implements(c, it) {
			// prefer pointer receiver form only when the value form does not implement
			cands = append(cands, c)
		}
	}
	// drop *T when T itself implements (value receivers): keep both is harmless but noisy
	p.implCache[k] = cands
	return cands, false
}

func (p *Prog) shapeFor(o *Obj, key string) *ShapeDecl {
	if len(p.cs.Shapes) == 0 || o.Backing || strings.Contains(key, "[*]") {
		return nil
	}
	if !strings.HasPrefix(key, ".") || strings.Count(key, ".") != 1 {
		return nil
	}
	return p.cs.Shapes[typeKey(o.Typ)+key]
}

func (p *Prog) errConst(fullName string) Term {
	switch fullName {
	case "nil":
		return BVConst(0, 32)
	}
	id, ok := p.errIDs[fullName]
	if !ok {
		id = len(p.errIDs) + 2
		p.errIDs[fullName] = id
	}
	return BVConst(int64(id), 32)
}

// contract lookup ------------------------------------------------------

func (p *Prog) contractFor(key string) *Contract { return p.cs.Funcs[key] }

// LoadContracts reads every zz_contracts_verif.go below repo plus the extern file.
func LoadContracts(repo, externPath string) (*Contracts, error) {
	cs := NewContracts()
	if externPath != "" {
		if err := cs.LoadFile(externPath, ""); err != nil {
			return nil, err
		}
	}
	err := filepath.Walk(repo, func(path string, info os.FileInfo, err error) error {
		if err != nil {
			return err
		}
		if info.IsDir() && (info.Name() == ".git" || info.Name() == "vendor") {
			return filepath.SkipDir
		}
		if !info.IsDir() && info.Name() == "zz_contracts_verif.go" {
			rel, _ := filepath.Rel(repo, filepath.Dir(path))
			pkg := modulePathDefault
			if rel != "." {
				pkg += "/" + filepath.ToSlash(rel)
			}
			return cs.LoadFile(path, pkg)
		}
		return nil
	})
	return cs, err
}
