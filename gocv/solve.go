package main

import (
	"regexp"
	"os"
	"sort"
	"bytes"
	"context"
	"crypto/sha256"
	"fmt"
	"os/exec"
	"strings"
	"sync"
	"time"
)

type solverDef struct {
	name string
	cmd  func(timeoutS int) []string
}

var solvers = []solverDef{
	{"z3-5.1.0", func(t int) []string { return []string{"z3-new", "-smt2", "-in", fmt.Sprintf("-T:%d", t)} }},
	{"cvc5-1.0.3", func(t int) []string {
		return []string{"cvc5", "--lang=smt2", fmt.Sprintf("--tlimit=%d", t*1000), "-"}
	}},
	{"z3-4.8.12", func(t int) []string { return []string{"z3", "-smt2", "-in", fmt.Sprintf("-T:%d", t)} }},
}

func symbolsOf(line string, out []string) []string {
	out = out[:0]
	i := 0
	n := len(line)
	for i < n {
		c := line[i]
		if (c >= 'a' && c <= 'z') || (c >= 'A' && c <= 'Z') || c == '_' || c == '$' {
			j := i
			hasBang := false
			for j < n {
				d := line[j]
				if (d >= 'a' && d <= 'z') || (d >= 'A' && d <= 'Z') || (d >= '0' && d <= '9') || d == '_' || d == '$' || d == '.' || d == '!' {
					if d == '!' {
						hasBang = true
					}
					j++
					continue
				}
				break
			}
			if hasBang {
				out = append(out, line[i:j])
			}
			i = j
			continue
		}
		i++
	}
	return out
}

type qline struct {
	text  string
	def   string // symbol defined (declare-const / define-fun), "" for asserts
	syms  []string
	isDef bool
}

func parseQLine(l string) qline {
	q := qline{text: l}
	var buf []string
	syms := symbolsOf(l, buf)
	if strings.HasPrefix(l, "(declare-const ") || strings.HasPrefix(l, "(define-fun ") {
		if len(syms) > 0 {
			q.def = syms[0]
			q.syms = append([]string{}, syms[1:]...)
			q.isDef = true
			return q
		}
	}
	q.syms = append([]string{}, syms...)
	return q
}

// Query builds the SMT-LIB text of the obligation. Only definitions and
// assumptions connected (through shared symbols) to the goal are included;
// dropping assumptions can only lose proofs, never create them.
func (o *Obligation) Query(withModel bool) string { return o.query(withModel, false) }

var plainInstOnly = false

// query builds the SMT-LIB text; with dropQuant the universally quantified hypotheses are
// replaced by their instances at the goal's skolem constants (a weaker, quantifier-free context).
func (o *Obligation) query(withModel bool, dropQuant bool) string { return o.queryMode(withModel, dropQuant, false) }

func (o *Obligation) queryMode(withModel bool, dropQuant bool, plainOnly bool) string {
	ex := o.ex
	var b strings.Builder
	if withModel {
		b.WriteString("(set-option :produce-models true)\n")
	}
	b.WriteString("(set-logic ALL)\n")
	goal := Implies(o.PC, o.Goal)
	goalLine := "(assert (not " + goal.S + "))"
	ex.qmu.Lock()
	if ex.qdecl == nil && ex.qscript == nil {
		for _, d := range ex.decls {
			ex.qdecl = append(ex.qdecl, parseQLine(d))
		}
		for _, d := range ex.script {
			ex.qscript = append(ex.qscript, parseQLine(d))
		}
	}
	ex.qmu.Unlock()
	lines := make([]qline, 0, len(ex.qdecl)+o.ScriptLen)
	lines = append(lines, ex.qdecl...)
	lines = append(lines, ex.qscript[:o.ScriptLen]...)
	defOf := map[string]int{}
	usedBy := map[string][]int{}
	for i, q := range lines {
		if q.isDef {
			defOf[q.def] = i
		}
		for _, s := range q.syms {
			usedBy[s] = append(usedBy[s], i)
		}
	}
	include := make([]bool, len(lines))
	needed := map[string]bool{}
	var work []string
	add := func(s string) {
		if !needed[s] {
			needed[s] = true
			work = append(work, s)
		}
	}
	var buf []string
	for _, s := range symbolsOf(goalLine, buf) {
		add(s)
	}
	for len(work) > 0 {
		s := work[len(work)-1]
		work = work[:len(work)-1]
		if i, ok := defOf[s]; ok && !include[i] {
			include[i] = true
			for _, t := range lines[i].syms {
				add(t)
			}
		}
		if strings.HasPrefix(s, "pc!") {
			continue // path-condition names do not connect assumptions
		}
		for _, i := range usedBy[s] {
			if !include[i] {
				include[i] = true
				if lines[i].isDef {
					add(lines[i].def)
				}
				for _, t := range lines[i].syms {
					add(t)
				}
			}
		}
	}
	noslice := os.Getenv("GOCV_NOSLICE") != ""
	var goalRoots map[string]bool
	for i, q := range lines {
		if include[i] || noslice {
			hasQ := !q.isDef && strings.Contains(q.text, "(forall ((")
			if !(dropQuant && hasQ) {
				b.WriteString(q.text)
				b.WriteByte('\n')
			}
			// instantiate universally quantified hypotheses at the goal's skolem constants
			if len(o.Skolems) > 0 && !q.isDef && strings.Contains(q.text, "(forall ((") {
				if goalRoots == nil {
					goalRoots = arrayRoots(goalLine, lines, defOf)
				}
				if !sharesRoot(arrayRoots(q.text, lines, defOf), goalRoots) {
					continue // the hypothesis talks about arrays the goal does not mention
				}
				its := o.instTerms(goalLine + " " + q.text)
				if plainOnly {
					its = o.Skolems
				}
				for _, inst := range instantiate(q.text, its) {
					if dropQuant && strings.Contains(inst, "(forall ((") {
						continue // a quantifier in negative position remains: drop the line from the quantifier-free variant
					}
					b.WriteString(inst)
					b.WriteByte('\n')
				}
			}
		}
	}
	b.WriteString(goalLine + "\n")
	b.WriteString("(check-sat)\n")
	if withModel {
		b.WriteString("(get-model)\n")
	}
	return b.String()
}

func (o *Obligation) QueryHash() string {
	h := sha256.Sum256([]byte(o.Query(false)))
	return fmt.Sprintf("%x", h[:8])
}

type solveResult struct {
	status string
	solver string
	out    string
	dur    float64
}

func runSolver(ctx context.Context, sd solverDef, query string, timeoutS int) solveResult {
	args := sd.cmd(timeoutS)
	c, cancel := context.WithTimeout(ctx, time.Duration(timeoutS+2)*time.Second)
	defer cancel()
	cmd := exec.CommandContext(c, args[0], args[1:]...)
	cmd.Stdin = strings.NewReader(query)
	var out bytes.Buffer
	cmd.Stdout = &out
	cmd.Stderr = &out
	t0 := time.Now()
	_ = cmd.Run()
	dur := time.Since(t0).Seconds()
	s := strings.TrimSpace(out.String())
	first := s
	if i := strings.IndexByte(s, '\n'); i >= 0 {
		first = strings.TrimSpace(s[:i])
	}
	status := "unknown"
	switch first {
	case "unsat":
		status = "unsat"
	case "sat":
		status = "sat"
	case "timeout":
		status = "timeout"
	case "unknown":
		status = "unknown"
	default:
		if c.Err() != nil {
			status = "timeout"
		} else if strings.Contains(s, "error") {
			status = "error"
		}
	}
	return solveResult{status: status, solver: sd.name, out: s, dur: dur}
}

var procSem = make(chan struct{}, 18)

type attempt struct {
	sd      solverDef
	query   string
	label   string
	satOK   bool // a "sat" answer of this attempt is conclusive (the query was not weakened)
}

func solveOne(o *Obligation, timeoutS int) {
	if o.Goal.IsTrue() || o.PC.IsFalse() {
		if !o.Vacuity {
			o.Status, o.Solver, o.Time = "unsat", "gocv-simplifier", 0
			return
		}
	}
	q := o.Query(false)
	var atts []attempt
	if o.Vacuity && timeoutS > 10 {
		// only "unsat" (no return reachable) fails the guard; the usual answer is "unknown" after the full
		// timeout (quantified assumptions), so the guard gets a shorter budget: it is a sanity check against
		// contradictory assumptions, which the solvers expose within a second when they exist
		timeoutS = 10
	}
	if len(o.Skolems) > 0 {
		// quantifier-free variant: hypotheses instantiated at the goal's skolems, quantified originals dropped
		qf0 := o.queryMode(false, true, true)
		if !strings.Contains(qf0, "(forall ((") && qf0 != q {
			atts = append(atts, attempt{solvers[0], qf0, "(qf-instances)", false}, attempt{solvers[1], qf0, "(qf-instances)", false})
		}
		qf := o.query(false, true)
		if !strings.Contains(qf, "(forall ((") && qf != q && qf != qf0 {
			atts = append(atts, attempt{solvers[0], qf, "(qf-instances+offsets)", false}, attempt{solvers[2], qf, "(qf-instances+offsets)", false})
		}
	} else {
		// stage 1: z3-new alone, short
		short := 3
		if timeoutS < short {
			short = timeoutS
		}
		procSem <- struct{}{}
		r := runSolver(context.Background(), solvers[0], q, short)
		<-procSem
		if r.status == "unsat" || r.status == "sat" {
			o.Status, o.Solver, o.Time, o.Output = r.status, r.solver, r.dur, r.out
			return
		}
	}
	for _, sd := range solvers {
		atts = append(atts, attempt{sd, q, "", true})
	}
	ctx, cancel := context.WithCancel(context.Background())
	defer cancel()
	ch := make(chan solveResult, len(atts))
	for _, a := range atts {
		a := a
		go func() {
			procSem <- struct{}{}
			defer func() { <-procSem }()
			if ctx.Err() != nil {
				ch <- solveResult{status: "cancelled", solver: a.sd.name}
				return
			}
			r := runSolver(ctx, a.sd, a.query, timeoutS)
			r.solver += a.label
			if r.status == "sat" && !a.satOK {
				r.status = "unknown" // weakened query: a model proves nothing
			}
			ch <- r
		}()
	}
	best := solveResult{status: "unknown"}
	var outs []string
	total := 0.0
	t0 := time.Now()
	for range atts {
		x := <-ch
		if x.status == "cancelled" {
			continue
		}
		outs = append(outs, x.solver+": "+firstLine(x.out))
		if x.status == "unsat" || x.status == "sat" {
			best = x
			cancel()
			break
		}
		if x.status == "timeout" && best.status == "unknown" {
			best.status = "timeout"
		}
	}
	total = time.Since(t0).Seconds()
	if best.solver == "" {
		best.solver = "none"
		best.out = strings.Join(outs, "; ")
	}
	o.Status, o.Solver, o.Time, o.Output = best.status, best.solver, total, best.out
}

func firstLine(s string) string {
	if i := strings.IndexByte(s, '\n'); i >= 0 {
		return s[:i]
	}
	return s
}

// solveAll discharges obligations. First pass: obligations of one function
// are sent in script order to one incremental z3 process (push/check/pop),
// which shares parsing and the common prefix. Whatever is not decided there is
// solved individually (sliced query, three solvers raced).
func solveAll(obls []*Obligation, timeoutS int, workers int) {
	type group struct {
		ex   *Exec
		obls []*Obligation
	}
	var groups []*group
	byEx := map[*Exec]*group{}
	var rest []*Obligation
	for _, o := range obls {
		if o.Goal.IsTrue() || o.PC.IsFalse() {
			if !o.Vacuity {
				o.Status, o.Solver, o.Time = "unsat", "gocv-simplifier", 0
				continue
			}
		}
		if o.ex == nil || os.Getenv("GOCV_NOBATCH") != "" || len(o.Skolems) > 0 {
			rest = append(rest, o)
			continue
		}
		g := byEx[o.ex]
		if g == nil || len(g.obls) >= 60 {
			g = &group{ex: o.ex}
			byEx[o.ex] = g
			groups = append(groups, g)
		}
		g.obls = append(g.obls, o)
	}
	var mu sync.Mutex
	var wg sync.WaitGroup
	gch := make(chan *group)
	for i := 0; i < workers; i++ {
		wg.Add(1)
		go func() {
			defer wg.Done()
			for g := range gch {
				un := solveBatch(g.ex, g.obls, 2)
				mu.Lock()
				rest = append(rest, un...)
				mu.Unlock()
			}
		}()
	}
	for _, g := range groups {
		gch <- g
	}
	close(gch)
	wg.Wait()
	ch := make(chan *Obligation)
	for i := 0; i < workers; i++ {
		wg.Add(1)
		go func() {
			defer wg.Done()
			for o := range ch {
				solveOne(o, timeoutS)
			}
		}()
	}
	for _, o := range rest {
		ch <- o
	}
	close(ch)
	wg.Wait()
	// Undecided-by-timeout obligations get one more attempt, two at a time with twice the budget: on a
	// loaded machine (several checks running side by side) a query that needs 10-20 s of solver time can
	// miss the first deadline. A timeout is never turned into a pass: only an "unsat" answer discharges.
	var again []*Obligation
	for _, o := range rest {
		if !o.Vacuity && o.Status == "timeout" {
			again = append(again, o)
		}
	}
	if len(again) > 0 && len(again) <= 12 {
		ch2 := make(chan *Obligation)
		for i := 0; i < 2; i++ {
			wg.Add(1)
			go func() {
				defer wg.Done()
				for o := range ch2 {
					t := o.Time
					solveOne(o, 2*timeoutS)
					o.Time += t
					if o.Status == "unsat" {
						o.Solver += "(retry)"
					}
				}
			}()
		}
		for _, o := range again {
			ch2 <- o
		}
		close(ch2)
		wg.Wait()
	}
}

// solveBatch runs one incremental z3 process over the obligations (which must
// belong to one Exec). It returns the obligations it could not decide.
func solveBatch(ex *Exec, obls []*Obligation, perCheckS int) (undecided []*Obligation) {
	sorted := append([]*Obligation{}, obls...)
	sort.SliceStable(sorted, func(i, j int) bool { return sorted[i].ScriptLen < sorted[j].ScriptLen })
	var b strings.Builder
	b.WriteString("(set-logic ALL)\n")
	for _, d := range ex.decls {
		b.WriteString(d)
		b.WriteByte('\n')
	}
	pos := 0
	for _, o := range sorted {
		for pos < o.ScriptLen {
			b.WriteString(ex.script[pos])
			b.WriteByte('\n')
			pos++
		}
		goal := Implies(o.PC, o.Goal)
		fmt.Fprintf(&b, "(push 1)\n(assert (not %s))\n(set-option :timeout %d)\n(check-sat)\n(set-option :timeout 4294967295)\n(pop 1)\n", goal.S, perCheckS*1000)
	}
	procSem <- struct{}{}
	ctx, cancel := context.WithTimeout(context.Background(), time.Duration(perCheckS*len(sorted)+20)*time.Second)
	cmd := exec.CommandContext(ctx, "z3-new", "-smt2", "-in")
	cmd.Stdin = strings.NewReader(b.String())
	var out bytes.Buffer
	cmd.Stdout = &out
	t0 := time.Now()
	_ = cmd.Run()
	cancel()
	<-procSem
	dur := time.Since(t0).Seconds()
	var answers []string
	for _, l := range strings.Split(out.String(), "\n") {
		l = strings.TrimSpace(l)
		if l == "sat" || l == "unsat" || l == "unknown" || l == "timeout" {
			answers = append(answers, l)
		} else if strings.HasPrefix(l, "(error") {
			// an error invalidates the positional correspondence: fall back for everything
			if os.Getenv("GOCV_DEBUG") != "" {
				fmt.Fprintf(os.Stderr, "batch %s: solver error %s\n", ex.rootKey, l)
			}
			return obls
		}
	}
	if os.Getenv("GOCV_DEBUG") != "" {
		nu := 0
		for i := range sorted {
			if i < len(answers) && answers[i] == "unsat" {
				nu++
			}
		}
		fmt.Fprintf(os.Stderr, "batch %s: %d obligations, %d answers, %d unsat, %.2fs\n", ex.rootKey, len(sorted), len(answers), nu, dur)
	}
	for i, o := range sorted {
		if i < len(answers) && answers[i] == "unsat" {
			o.Status, o.Solver, o.Time = "unsat", "z3-5.1.0", dur/float64(len(sorted))
			continue
		}
		undecided = append(undecided, o)
	}
	return undecided
}

// modelFor re-runs a failed obligation asking for a model.
func modelFor(o *Obligation, timeoutS int) string {
	q := o.Query(true)
	r := runSolver(context.Background(), solvers[0], q, timeoutS)
	if r.status == "sat" {
		return r.out
	}
	return ""
}

func isNameChar(d byte) bool {
	return (d >= 'a' && d <= 'z') || (d >= 'A' && d <= 'Z') || (d >= '0' && d <= '9') || d == '_' || d == '$' || d == '.' || d == '!'
}

func replaceToken(s, name, repl string) string {
	var b strings.Builder
	i := 0
	for {
		j := strings.Index(s[i:], name)
		if j < 0 {
			b.WriteString(s[i:])
			return b.String()
		}
		j += i
		end := j + len(name)
		before := j == 0 || !isNameChar(s[j-1])
		after := end >= len(s) || !isNameChar(s[end])
		b.WriteString(s[i:j])
		if before && after {
			b.WriteString(repl)
		} else {
			b.WriteString(name)
		}
		i = end
	}
}

// instantiate returns (at most one) copy of an assertion line in which every positively occurring
// (forall ((x S)) BODY) sub-term is replaced by the conjunction of BODY[x := t] for the given
// instantiation terms t of sort S. Replacing a universally quantified hypothesis by instances only
// weakens it. Lines in which some quantifier occurs negatively are returned with that quantifier
// left in place (the caller drops such lines from the quantifier-free variant).
func instantiate(line string, terms []Term) []string {
	const pat = "(forall (("
	if !strings.Contains(line, pat) {
		return nil
	}
	pos := 0
	changed := false
	guard := 0
	for guard < 4000 {
		guard++
		rel := strings.Index(line[pos:], pat)
		if rel < 0 {
			break
		}
		idx := pos + rel
		if !positiveAt(line, idx) {
			pos = idx + len(pat)
			continue
		}
		p := idx + len(pat)
		q := strings.IndexByte(line[p:], ' ')
		if q < 0 {
			break
		}
		name := line[p : p+q]
		sortStart := p + q + 1
		depth := 0
		k := sortStart
		for ; k < len(line); k++ {
			if line[k] == '(' {
				depth++
			} else if line[k] == ')' {
				if depth == 0 {
					break
				}
				depth--
			}
		}
		sortText := line[sortStart:k]
		bodyStart := k + 3
		if bodyStart >= len(line) {
			break
		}
		depth = 0
		m := bodyStart
		for ; m < len(line); m++ {
			if line[m] == '(' {
				depth++
			} else if line[m] == ')' {
				if depth == 0 {
					break
				}
				depth--
			}
		}
		body := line[bodyStart:m]
		if strings.HasPrefix(body, "(! ") {
			if pi := strings.LastIndex(body, " :pattern"); pi > 0 {
				body = body[3:pi]
			}
		}
		var insts []string
		for _, t := range terms {
			if t.Sort.String() != sortText {
				continue
			}
			insts = append(insts, replaceToken(body, name, t.S))
		}
		var repl string
		switch len(insts) {
		case 0:
			repl = "true"
		case 1:
			repl = insts[0]
		default:
			repl = "(and " + strings.Join(insts, " ") + ")"
		}
		line = line[:idx] + repl + line[m+1:]
		changed = true
		pos = idx // nested quantifiers inside the instances are handled by the next rounds
		if len(line) > 4000000 {
			break
		}
	}
	if !changed {
		return nil
	}
	return []string{line}
}

// positiveAt reports whether position idx of an s-expression line is in a
// positive position with respect to the top-level assert.
func positiveAt(line string, idx int) bool {
	// walk the enclosing operators from the outside in
	type frame struct {
		op  string
		arg int
	}
	var stack []frame
	i := 0
	for i < idx {
		c := line[i]
		if c == '(' {
			j := i + 1
			for j < len(line) && line[j] != ' ' && line[j] != ')' && line[j] != '(' {
				j++
			}
			stack = append(stack, frame{op: line[i+1 : j], arg: 0})
			i = j
			continue
		}
		if c == ')' {
			if len(stack) > 0 {
				stack = stack[:len(stack)-1]
			}
			if len(stack) > 0 {
				// finished one argument of the parent
			}
			i++
			continue
		}
		if c == ' ' {
			if len(stack) > 0 {
				stack[len(stack)-1].arg++
			}
			i++
			continue
		}
		i++
	}
	pos := true
	for _, f := range stack {
		switch f.op {
		case "assert", "and", "or", "forall", "!":
		case "=>":
			if f.arg <= 1 {
				pos = !pos
			}
		case "not":
			pos = !pos
		case "ite":
			if f.arg <= 1 {
				return false
			}
		default:
			return false
		}
	}
	return pos
}

// explainModel asks the solver for the values of the symbols the goal is built from
// (following definitions a few levels deep). Used for diagnostics and replay files.
func explainModel(o *Obligation, timeoutS int) string {
	q := o.query(true, false)
	lines := strings.Split(q, "\n")
	defs := map[string]string{}
	for _, l := range lines {
		if strings.HasPrefix(l, "(define-fun ") || strings.HasPrefix(l, "(declare-const ") {
			var buf []string
			sy := symbolsOf(l, buf)
			if len(sy) > 0 {
				defs[sy[0]] = l
			}
		}
	}
	goalLine := ""
	for _, l := range lines {
		if strings.HasPrefix(l, "(assert (not ") {
			goalLine = l
		}
	}
	seen := map[string]bool{}
	var order []string
	var buf []string
	frontier := symbolsOf(goalLine, buf)
	for depth := 0; depth < 4 && len(frontier) > 0 && len(order) < 80; depth++ {
		var next []string
		for _, s := range frontier {
			if seen[s] {
				continue
			}
			seen[s] = true
			order = append(order, s)
			if d, ok := defs[s]; ok && strings.HasPrefix(d, "(define-fun ") {
				var b2 []string
				next = append(next, symbolsOf(d, b2)[1:]...)
			}
		}
		frontier = next
	}
	if len(order) == 0 {
		return ""
	}
	var vals []string
	for _, s := range order {
		if d, ok := defs[s]; ok && !strings.Contains(d, "(Array ") {
			vals = append(vals, s)
		}
	}
	q = strings.Replace(q, "(get-model)\n", "(get-value ("+strings.Join(vals, " ")+"))\n", 1)
	r := runSolver(context.Background(), solvers[0], q, timeoutS)
	if r.status != "sat" {
		return r.status
	}
	return r.out
}

var smallConstRe = regexp.MustCompile(`\(_ bv([0-9]+) 64\)`)

// instTerms returns the terms at which quantified hypotheses are instantiated:
// the goal's skolem constants and skolem +/- the small constants of the goal.
func (o *Obligation) instTerms(goalLine string) []Term {
	out := append([]Term{}, o.Skolems...)
	seen := map[string]bool{}
	var consts []string
	for _, m := range smallConstRe.FindAllStringSubmatch(goalLine, -1) {
		if len(m[1]) <= 4 && m[1] != "0" && !seen[m[1]] && len(consts) < 5 {
			seen[m[1]] = true
			consts = append(consts, m[1])
		}
	}
	for _, sk := range o.Skolems {
		if sk.Sort != BV(64) {
			continue
		}
		for _, c := range consts {
			out = append(out, Term{S: fmt.Sprintf("(bvadd %s (_ bv%s 64))", sk.S, c), Sort: BV(64)})
			out = append(out, Term{S: fmt.Sprintf("(bvsub %s (_ bv%s 64))", sk.S, c), Sort: BV(64)})
		}
	}
	return out
}

var selectRe = regexp.MustCompile(`\((?:select|store) ([^ ()]+)`)

// arrayRoots returns the declared array constants that the arrays selected from in text are built from.
func arrayRoots(text string, lines []qline, defOf map[string]int) map[string]bool {
	roots := map[string]bool{}
	seen := map[string]bool{}
	var visit func(name string, depth int)
	visit = func(name string, depth int) {
		if seen[name] || depth > 200 {
			return
		}
		seen[name] = true
		i, ok := defOf[name]
		if !ok {
			return
		}
		l := lines[i].text
		if strings.HasPrefix(l, "(declare-const ") {
			if strings.Contains(l, "(Array ") {
				roots[name] = true
			}
			return
		}
		if !strings.Contains(l, "(Array ") {
			// a scalar definition: look for selects inside it
			for _, m := range selectRe.FindAllStringSubmatch(l, -1) {
				visit(m[1], depth+1)
			}
			for _, s := range lines[i].syms {
				if j, ok := defOf[s]; ok && !strings.HasPrefix(lines[j].text, "(declare-const ") && strings.Contains(lines[j].text, "(select ") {
					visit(s, depth+1)
				}
			}
			return
		}
		for _, s := range lines[i].syms {
			if j, ok := defOf[s]; ok && strings.Contains(lines[j].text, "(Array ") {
				visit(s, depth+1)
			}
		}
	}
	for _, m := range selectRe.FindAllStringSubmatch(text, -1) {
		visit(m[1], 0)
	}
	// selects hidden behind scalar definitions used in the text
	var buf []string
	for _, s := range symbolsOf(text, buf) {
		if j, ok := defOf[s]; ok && strings.HasPrefix(lines[j].text, "(define-fun ") && strings.Contains(lines[j].text, "(select ") {
			visit(s, 0)
		}
	}
	return roots
}

func sharesRoot(a, b map[string]bool) bool {
	if len(a) == 0 {
		return true // no array involved: keep (scalar quantification)
	}
	for k := range a {
		if b[k] {
			return true
		}
	}
	return false
}
