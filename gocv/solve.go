package main

import (
	"os"
	"sort"
	"bytes"
	"context"
	"crypto/sha256"
	"fmt"
	"os/exec"
	"strings"
	"sync"
	"time"
)

type solverDef struct {
	name string
	cmd  func(timeoutS int) []string
}

var solvers = []solverDef{
	{"z3-5.1.0", func(t int) []string { return []string{"z3-new", "-smt2", "-in", fmt.Sprintf("-T:%d", t)} }},
	{"cvc5-1.0.3", func(t int) []string {
		return []string{"cvc5", "--lang=smt2", fmt.Sprintf("--tlimit=%d", t*1000), "-"}
	}},
	{"z3-4.8.12", func(t int) []string { return []string{"z3", "-smt2", "-in", fmt.Sprintf("-T:%d", t)} }},
}

func symbolsOf(line string, out []string) []string {
	out = out[:0]
	i := 0
	n := len(line)
	for i < n {
		c := line[i]
		if (c >= 'a' && c <= 'z') || (c >= 'A' && c <= 'Z') || c == '_' || c == '$' {
			j := i
			hasBang := false
			for j < n {
				d := line[j]
				if (d >= 'a' && d <= 'z') || (d >= 'A' && d <= 'Z') || (d >= '0' && d <= '9') || d == '_' || d == '$' || d == '.' || d == '!' {
					if d == '!' {
						hasBang = true
					}
					j++
					continue
				}
				break
			}
			if hasBang {
				out = append(out, line[i:j])
			}
			i = j
			continue
		}
		i++
	}
	return out
}

type qline struct {
	text  string
	def   string // symbol defined (declare-const / define-fun), "" for asserts
	syms  []string
	isDef bool
}

func parseQLine(l string) qline {
	q := qline{text: l}
	var buf []string
	syms := symbolsOf(l, buf)
	if strings.HasPrefix(l, "(declare-const ") || strings.HasPrefix(l, "(define-fun ") {
		if len(syms) > 0 {
			q.def = syms[0]
			q.syms = append([]string{}, syms[1:]...)
			q.isDef = true
			return q
		}
	}
	q.syms = append([]string{}, syms...)
	return q
}

// Query builds the SMT-LIB text of the obligation. Only definitions and
// assumptions connected (through shared symbols) to the goal are included;
// dropping assumptions can only lose proofs, never create them.
func (o *Obligation) Query(withModel bool) string {
	ex := o.ex
	var b strings.Builder
	if withModel {
		b.WriteString("(set-option :produce-models true)\n")
	}
	b.WriteString("(set-logic ALL)\n")
	goal := Implies(o.PC, o.Goal)
	goalLine := "(assert (not " + goal.S + "))"
	ex.qmu.Lock()
	if ex.qdecl == nil && ex.qscript == nil {
		for _, d := range ex.decls {
			ex.qdecl = append(ex.qdecl, parseQLine(d))
		}
		for _, d := range ex.script {
			ex.qscript = append(ex.qscript, parseQLine(d))
		}
	}
	ex.qmu.Unlock()
	lines := make([]qline, 0, len(ex.qdecl)+o.ScriptLen)
	lines = append(lines, ex.qdecl...)
	lines = append(lines, ex.qscript[:o.ScriptLen]...)
	defOf := map[string]int{}
	usedBy := map[string][]int{}
	for i, q := range lines {
		if q.isDef {
			defOf[q.def] = i
		}
		for _, s := range q.syms {
			usedBy[s] = append(usedBy[s], i)
		}
	}
	include := make([]bool, len(lines))
	needed := map[string]bool{}
	var work []string
	add := func(s string) {
		if !needed[s] {
			needed[s] = true
			work = append(work, s)
		}
	}
	var buf []string
	for _, s := range symbolsOf(goalLine, buf) {
		add(s)
	}
	for len(work) > 0 {
		s := work[len(work)-1]
		work = work[:len(work)-1]
		if i, ok := defOf[s]; ok && !include[i] {
			include[i] = true
			for _, t := range lines[i].syms {
				add(t)
			}
		}
		if strings.HasPrefix(s, "pc!") {
			continue // path-condition names do not connect assumptions
		}
		for _, i := range usedBy[s] {
			if !include[i] {
				include[i] = true
				if lines[i].isDef {
					add(lines[i].def)
				}
				for _, t := range lines[i].syms {
					add(t)
				}
			}
		}
	}
	noslice := os.Getenv("GOCV_NOSLICE") != ""
	for i, q := range lines {
		if include[i] || noslice {
			b.WriteString(q.text)
			b.WriteByte('\n')
		}
	}
	b.WriteString(goalLine + "\n")
	b.WriteString("(check-sat)\n")
	if withModel {
		b.WriteString("(get-model)\n")
	}
	return b.String()
}

func (o *Obligation) QueryHash() string {
	h := sha256.Sum256([]byte(o.Query(false)))
	return fmt.Sprintf("%x", h[:8])
}

type solveResult struct {
	status string
	solver string
	out    string
	dur    float64
}

func runSolver(ctx context.Context, sd solverDef, query string, timeoutS int) solveResult {
	args := sd.cmd(timeoutS)
	c, cancel := context.WithTimeout(ctx, time.Duration(timeoutS+2)*time.Second)
	defer cancel()
	cmd := exec.CommandContext(c, args[0], args[1:]...)
	cmd.Stdin = strings.NewReader(query)
	var out bytes.Buffer
	cmd.Stdout = &out
	cmd.Stderr = &out
	t0 := time.Now()
	_ = cmd.Run()
	dur := time.Since(t0).Seconds()
	s := strings.TrimSpace(out.String())
	first := s
	if i := strings.IndexByte(s, '\n'); i >= 0 {
		first = strings.TrimSpace(s[:i])
	}
	status := "unknown"
	switch first {
	case "unsat":
		status = "unsat"
	case "sat":
		status = "sat"
	case "timeout":
		status = "timeout"
	case "unknown":
		status = "unknown"
	default:
		if c.Err() != nil {
			status = "timeout"
		} else if strings.Contains(s, "error") {
			status = "error"
		}
	}
	return solveResult{status: status, solver: sd.name, out: s, dur: dur}
}

var procSem = make(chan struct{}, 18)

func solveOne(o *Obligation, timeoutS int) {
	if o.Goal.IsTrue() || o.PC.IsFalse() {
		if !o.Vacuity {
			o.Status, o.Solver, o.Time = "unsat", "gocv-simplifier", 0
			return
		}
	}
	q := o.Query(false)
	// stage 1: z3-new alone, short
	short := 3
	if timeoutS < short {
		short = timeoutS
	}
	procSem <- struct{}{}
	r := runSolver(context.Background(), solvers[0], q, short)
	<-procSem
	if r.status == "unsat" || r.status == "sat" {
		o.Status, o.Solver, o.Time, o.Output = r.status, r.solver, r.dur, r.out
		return
	}
	// stage 2: race all three
	ctx, cancel := context.WithCancel(context.Background())
	defer cancel()
	ch := make(chan solveResult, len(solvers))
	for _, sd := range solvers {
		sd := sd
		go func() {
			procSem <- struct{}{}
			defer func() { <-procSem }()
			if ctx.Err() != nil {
				ch <- solveResult{status: "cancelled", solver: sd.name}
				return
			}
			ch <- runSolver(ctx, sd, q, timeoutS)
		}()
	}
	best := solveResult{status: "unknown"}
	var outs []string
	total := r.dur
	for range solvers {
		x := <-ch
		if x.status == "cancelled" {
			continue
		}
		outs = append(outs, x.solver+": "+firstLine(x.out))
		if x.status == "unsat" || x.status == "sat" {
			best = x
			total += x.dur
			cancel()
			break
		}
		if x.status == "timeout" && best.status == "unknown" {
			best.status = "timeout"
		}
		if x.dur > best.dur {
			best.dur = x.dur
		}
	}
	if best.solver == "" {
		best.solver = "none"
		best.out = strings.Join(outs, "; ")
		total += best.dur
	}
	o.Status, o.Solver, o.Time, o.Output = best.status, best.solver, total, best.out
}

func firstLine(s string) string {
	if i := strings.IndexByte(s, '\n'); i >= 0 {
		return s[:i]
	}
	return s
}

// solveAll discharges obligations. First pass: obligations of one function
// are sent in script order to one incremental z3 process (push/check/pop),
// which shares parsing and the common prefix. Whatever is not decided there is
// solved individually (sliced query, three solvers raced).
func solveAll(obls []*Obligation, timeoutS int, workers int) {
	type group struct {
		ex   *Exec
		obls []*Obligation
	}
	var groups []*group
	byEx := map[*Exec]*group{}
	var rest []*Obligation
	for _, o := range obls {
		if o.Goal.IsTrue() || o.PC.IsFalse() {
			if !o.Vacuity {
				o.Status, o.Solver, o.Time = "unsat", "gocv-simplifier", 0
				continue
			}
		}
		if o.ex == nil || os.Getenv("GOCV_NOBATCH") != "" {
			rest = append(rest, o)
			continue
		}
		g := byEx[o.ex]
		if g == nil || len(g.obls) >= 60 {
			g = &group{ex: o.ex}
			byEx[o.ex] = g
			groups = append(groups, g)
		}
		g.obls = append(g.obls, o)
	}
	var mu sync.Mutex
	var wg sync.WaitGroup
	gch := make(chan *group)
	for i := 0; i < workers; i++ {
		wg.Add(1)
		go func() {
			defer wg.Done()
			for g := range gch {
				un := solveBatch(g.ex, g.obls, 2)
				mu.Lock()
				rest = append(rest, un...)
				mu.Unlock()
			}
		}()
	}
	for _, g := range groups {
		gch <- g
	}
	close(gch)
	wg.Wait()
	ch := make(chan *Obligation)
	for i := 0; i < workers; i++ {
		wg.Add(1)
		go func() {
			defer wg.Done()
			for o := range ch {
				solveOne(o, timeoutS)
			}
		}()
	}
	for _, o := range rest {
		ch <- o
	}
	close(ch)
	wg.Wait()
}

// solveBatch runs one incremental z3 process over the obligations (which must
// belong to one Exec). It returns the obligations it could not decide.
func solveBatch(ex *Exec, obls []*Obligation, perCheckS int) (undecided []*Obligation) {
	sorted := append([]*Obligation{}, obls...)
	sort.SliceStable(sorted, func(i, j int) bool { return sorted[i].ScriptLen < sorted[j].ScriptLen })
	var b strings.Builder
	b.WriteString("(set-logic ALL)\n")
	for _, d := range ex.decls {
		b.WriteString(d)
		b.WriteByte('\n')
	}
	pos := 0
	for _, o := range sorted {
		for pos < o.ScriptLen {
			b.WriteString(ex.script[pos])
			b.WriteByte('\n')
			pos++
		}
		goal := Implies(o.PC, o.Goal)
		fmt.Fprintf(&b, "(push 1)\n(assert (not %s))\n(set-option :timeout %d)\n(check-sat)\n(set-option :timeout 4294967295)\n(pop 1)\n", goal.S, perCheckS*1000)
	}
	procSem <- struct{}{}
	ctx, cancel := context.WithTimeout(context.Background(), time.Duration(perCheckS*len(sorted)+20)*time.Second)
	cmd := exec.CommandContext(ctx, "z3-new", "-smt2", "-in")
	cmd.Stdin = strings.NewReader(b.String())
	var out bytes.Buffer
	cmd.Stdout = &out
	t0 := time.Now()
	_ = cmd.Run()
	cancel()
	<-procSem
	dur := time.Since(t0).Seconds()
	var answers []string
	for _, l := range strings.Split(out.String(), "\n") {
		l = strings.TrimSpace(l)
		if l == "sat" || l == "unsat" || l == "unknown" || l == "timeout" {
			answers = append(answers, l)
		} else if strings.HasPrefix(l, "(error") {
			// an error invalidates the positional correspondence: fall back for everything
			if os.Getenv("GOCV_DEBUG") != "" {
				fmt.Fprintf(os.Stderr, "batch %s: solver error %s\n", ex.rootKey, l)
			}
			return obls
		}
	}
	if os.Getenv("GOCV_DEBUG") != "" {
		nu := 0
		for i := range sorted {
			if i < len(answers) && answers[i] == "unsat" {
				nu++
			}
		}
		fmt.Fprintf(os.Stderr, "batch %s: %d obligations, %d answers, %d unsat, %.2fs\n", ex.rootKey, len(sorted), len(answers), nu, dur)
	}
	for i, o := range sorted {
		if i < len(answers) && answers[i] == "unsat" {
			o.Status, o.Solver, o.Time = "unsat", "z3-5.1.0", dur/float64(len(sorted))
			continue
		}
		undecided = append(undecided, o)
	}
	return undecided
}

// modelFor re-runs a failed obligation asking for a model.
func modelFor(o *Obligation, timeoutS int) string {
	q := o.Query(true)
	r := runSolver(context.Background(), solvers[0], q, timeoutS)
	if r.status == "sat" {
		return r.out
	}
	return ""
}
