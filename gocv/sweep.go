package main

// Frame / provenance sweep (C17): a zero-annotation obligation generator over every function of
// the module, in both build configurations. Sufficient condition for "distinct instances do not
// interfere": outside package initialisers no code writes a package-level variable, writes through a
// reference obtained from one, or lets such a reference escape to code that may write through it;
// the library starts no goroutine and uses no channel/select; assembly files never use a data symbol
// as a destination.

import (
	"bufio"
	"fmt"
	"go/token"
	"go/types"
	"os"
	"path/filepath"
	"regexp"
	"sort"
	"strings"

	"golang.org/x/tools/go/ssa"
)

type sweepObl struct {
	Name   string
	Func   string
	Cfg    string
	Kind   string
	Pos    string
	OK     bool
	Detail string
}

// allowlist of external functions that only read through their reference arguments
var readOnlyExtern = map[string]bool{
	"hash/crc32.Update":                          true,
	"hash/crc32.ChecksumIEEE":                    true,
	"hash/crc32.Checksum":                        true,
	"hash/adler32.Checksum":                      true,
	"(encoding/binary.littleEndian).Uint16":      true,
	"(encoding/binary.littleEndian).Uint32":      true,
	"(encoding/binary.littleEndian).Uint64":      true,
	"(encoding/binary.bigEndian).Uint16":         true,
	"(encoding/binary.bigEndian).Uint32":         true,
	"(encoding/binary.bigEndian).Uint64":         true,
	"fmt.Errorf":                                 true,
	"fmt.Sprintf":                                true,
	"errors.New":                                 true,
	"(encoding/binary.littleEndian).PutUint16#0": true,
}

type sweeper struct {
	p        *Prog
	cfg      string
	writes   map[*ssa.Function]map[int]bool // parameter indices (incl. receiver) a function may write through
	escapes  map[*ssa.Function]map[int]bool // parameter indices that may be stored/returned
	funcs    []*ssa.Function
	obls     []*sweepObl
	visiting map[ssa.Value]bool
}

func isRefType(t types.Type) bool {
	switch under(t).(type) {
	case *types.Pointer, *types.Slice, *types.Map, *types.Chan, *types.Signature, *types.Interface:
		return true
	}
	if b, ok := under(t).(*types.Basic); ok && b.Kind() == types.UnsafePointer {
		return true
	}
	return false
}

// origin classifies where a reference value comes from.
type origin struct {
	global *ssa.Global // non-nil: derived from this package-level variable
	param  int         // >=0: derived from this parameter
	local  bool
	other  bool // call results, loads from heap objects, ...
}

func (sw *sweeper) origins(v ssa.Value, fn *ssa.Function, seen map[ssa.Value]bool) []origin {
	if seen[v] {
		return nil
	}
	seen[v] = true
	switch x := v.(type) {
	case *ssa.Global:
		return []origin{{global: x, param: -1}}
	case *ssa.Parameter:
		for i, p := range fn.Params {
			if p == x {
				return []origin{{param: i}}
			}
		}
		return []origin{{param: -1, other: true}}
	case *ssa.FreeVar:
		return []origin{{param: -1, other: true}}
	case *ssa.Alloc:
		// a local cell: the reference stored in it may itself come from elsewhere; as an address it is local
		return []origin{{param: -1, local: true}}
	case *ssa.FieldAddr:
		return sw.origins(x.X, fn, seen)
	case *ssa.IndexAddr:
		return sw.origins(x.X, fn, seen)
	case *ssa.Slice:
		return sw.origins(x.X, fn, seen)
	case *ssa.Convert:
		return sw.origins(x.X, fn, seen)
	case *ssa.ChangeType:
		return sw.origins(x.X, fn, seen)
	case *ssa.ChangeInterface:
		return sw.origins(x.X, fn, seen)
	case *ssa.MakeInterface:
		return sw.origins(x.X, fn, seen)
	case *ssa.TypeAssert:
		return sw.origins(x.X, fn, seen)
	case *ssa.Extract:
		return sw.origins(x.Tuple, fn, seen)
	case *ssa.BinOp: // uintptr arithmetic
		return append(sw.origins(x.X, fn, seen), sw.origins(x.Y, fn, seen)...)
	case *ssa.Phi:
		var out []origin
		for _, e := range x.Edges {
			out = append(out, sw.origins(e, fn, seen)...)
		}
		return out
	case *ssa.UnOp:
		if x.Op == token.MUL {
			// load: if it loads a reference, the reference's provenance is that of what was stored there.
			if !isRefType(x.Type()) {
				return []origin{{param: -1, other: true}}
			}
			// load from a local cell: union of the values stored into that cell
			if a, ok := x.X.(*ssa.Alloc); ok {
				var out []origin
				for _, r := range *a.Referrers() {
					if st, ok := r.(*ssa.Store); ok && st.Addr == a {
						out = append(out, sw.origins(st.Val, fn, seen)...)
					}
				}
				if len(out) == 0 {
					return []origin{{param: -1, local: true}}
				}
				return out
			}
			// load of a reference held in a package-level variable or reachable from one: global-derived
			os := sw.origins(x.X, fn, seen)
			var out []origin
			for _, o := range os {
				if o.global != nil {
					out = append(out, o)
				} else if o.param >= 0 {
					out = append(out, o) // reference loaded from an object reachable from a parameter: belongs to that instance
				} else {
					out = append(out, origin{param: -1, other: true})
				}
			}
			return out
		}
		return []origin{{param: -1, other: true}}
	case *ssa.Call:
		return []origin{{param: -1, other: true}}
	case *ssa.Const, *ssa.Function, *ssa.MakeSlice, *ssa.MakeClosure, *ssa.MakeMap, *ssa.MakeChan, *ssa.Builtin:
		return []origin{{param: -1, local: true}}
	}
	return []origin{{param: -1, other: true}}
}

func (sw *sweeper) inModule(fn *ssa.Function) bool {
	return fn != nil && fn.Pkg != nil && strings.HasPrefix(fn.Pkg.Pkg.Path(), sw.p.modulePath) && !strings.Contains(fn.Pkg.Pkg.Path(), "/examples/")
}

func isInitFunc(fn *ssa.Function) bool {
	return fn.Synthetic == "package initializer" || strings.HasPrefix(fn.Name(), "init#") || (fn.Parent() != nil && isInitFunc(fn.Parent()))
}

// summarise computes, to a fixed point, which parameters each module function may write through.
func (sw *sweeper) summarise() {
	sw.writes = map[*ssa.Function]map[int]bool{}
	sw.escapes = map[*ssa.Function]map[int]bool{}
	for _, fn := range sw.funcs {
		sw.writes[fn] = map[int]bool{}
		sw.escapes[fn] = map[int]bool{}
	}
	for changed := true; changed; {
		changed = false
		for _, fn := range sw.funcs {
			mark := func(v ssa.Value, m map[int]bool) {
				for _, o := range sw.origins(v, fn, map[ssa.Value]bool{}) {
					if o.param >= 0 && !m[o.param] {
						m[o.param] = true
						changed = true
					}
				}
			}
			for _, b := range fn.Blocks {
				for _, in := range b.Instrs {
					switch i := in.(type) {
					case *ssa.Store:
						mark(i.Addr, sw.writes[fn])
						if isRefType(i.Val.Type()) {
							// storing a reference anywhere but a local cell lets it escape
							if _, isLocal := i.Addr.(*ssa.Alloc); !isLocal {
								mark(i.Val, sw.escapes[fn])
							}
						}
					case *ssa.Return:
						for _, r := range i.Results {
							if isRefType(r.Type()) {
								mark(r, sw.escapes[fn])
							}
						}
					case ssa.CallInstruction:
						com := i.Common()
						if bi, ok := com.Value.(*ssa.Builtin); ok {
							if (bi.Name() == "copy" || bi.Name() == "append") && len(com.Args) > 0 {
								mark(com.Args[0], sw.writes[fn])
							}
							continue
						}
						callee := com.StaticCallee()
						args := com.Args
						for ai, a := range args {
							if !isRefType(a.Type()) {
								continue
							}
							if callee != nil && sw.inModule(callee) && len(callee.Blocks) > 0 {
								if sw.writes[callee][ai] {
									mark(a, sw.writes[fn])
								}
								if sw.escapes[callee][ai] {
									mark(a, sw.escapes[fn])
								}
							} else if callee != nil && readOnlyExtern[FuncKey(callee)] {
								// reads only
							} else {
								// unknown callee (assembly, interface, function value, other external): may write and keep
								mark(a, sw.writes[fn])
								mark(a, sw.escapes[fn])
							}
						}
						if com.IsInvoke() {
							mark(com.Value, sw.writes[fn])
						}
					}
				}
			}
		}
	}
}

func (sw *sweeper) add(fn *ssa.Function, kind string, in ssa.Instruction, ok bool, detail string) {
	n := 0
	for _, o := range sw.obls {
		if o.Func == FuncKey(fn) && o.Kind == kind {
			n++
		}
	}
	sw.obls = append(sw.obls, &sweepObl{Name: fmt.Sprintf("%s@%s#no-global-write[%s:%d]", FuncKey(fn), sw.cfg, kind, n+1), Func: FuncKey(fn), Cfg: sw.cfg, Kind: kind,
		Pos: posOf(fn, in.Pos()), OK: ok, Detail: detail})
}

func (sw *sweeper) globalOf(v ssa.Value, fn *ssa.Function) *ssa.Global {
	for _, o := range sw.origins(v, fn, map[ssa.Value]bool{}) {
		if o.global != nil {
			return o.global
		}
	}
	return nil
}

func (sw *sweeper) check() {
	for _, fn := range sw.funcs {
		if isInitFunc(fn) {
			continue
		}
		for _, b := range fn.Blocks {
			for _, in := range b.Instrs {
				switch i := in.(type) {
				case *ssa.Go:
					sw.add(fn, "go", in, false, "the library starts a goroutine")
				case *ssa.Select, *ssa.Send, *ssa.MakeChan:
					sw.add(fn, "chan", in, false, "channel operation")
				case *ssa.Store:
					g := sw.globalOf(i.Addr, fn)
					sw.add(fn, "store", in, g == nil, detailGlobal(g, "store writes (through) package-level variable"))
					if isRefType(i.Val.Type()) {
						if _, isLocal := i.Addr.(*ssa.Alloc); !isLocal {
							g2 := sw.globalOf(i.Val, fn)
							// error sentinels and function values are immutable: keeping a copy of the reference is harmless
							if g2 != nil && (isErrorType(g2.Type().(*types.Pointer).Elem()) || isFuncType(g2.Type().(*types.Pointer).Elem())) {
								g2 = nil
							}
							sw.add(fn, "escape", in, g2 == nil, detailGlobal(g2, "reference to package-level variable stored into memory"))
						}
					}
				case *ssa.Return:
					for _, r := range i.Results {
						if isRefType(r.Type()) {
							g := sw.globalOf(r, fn)
							// returning a package-level function value or error sentinel is harmless: immutable
							if g != nil && (isErrorType(g.Type().(*types.Pointer).Elem()) || isFuncType(g.Type().(*types.Pointer).Elem())) {
								g = nil
							}
							sw.add(fn, "return", in, g == nil, detailGlobal(g, "reference to package-level variable returned"))
						}
					}
				case ssa.CallInstruction:
					com := i.Common()
					if bi, ok := com.Value.(*ssa.Builtin); ok {
						if (bi.Name() == "copy" || bi.Name() == "append") && len(com.Args) > 0 {
							g := sw.globalOf(com.Args[0], fn)
							sw.add(fn, bi.Name(), in, g == nil, detailGlobal(g, bi.Name()+" writes (through) package-level variable"))
						}
						continue
					}
					callee := com.StaticCallee()
					for ai, a := range com.Args {
						if !isRefType(a.Type()) {
							continue
						}
						g := sw.globalOf(a, fn)
						if g == nil {
							continue
						}
						gt := g.Type().(*types.Pointer).Elem()
						if isErrorType(gt) || isFuncType(gt) {
							continue
						}
						ok := false
						why := ""
						switch {
						case callee != nil && sw.inModule(callee) && len(callee.Blocks) > 0:
							ok = !sw.writes[callee][ai] && !sw.escapes[callee][ai]
							why = fmt.Sprintf("passed to %s which may write or keep it", FuncKey(callee))
						case callee != nil && readOnlyExtern[FuncKey(callee)]:
							ok = true
						default:
							why = "passed to a callee that cannot be analysed (assembly, interface, function value or external)"
						}
						sw.add(fn, "arg", in, ok, detailGlobal(g, why))
					}
				}
			}
		}
	}
}

func isFuncType(t types.Type) bool {
	_, ok := under(t).(*types.Signature)
	return ok
}

func detailGlobal(g *ssa.Global, what string) string {
	if g == nil {
		return ""
	}
	return fmt.Sprintf("%s: %s.%s", what, g.Pkg.Pkg.Path(), g.Name())
}

var asmDestRe = regexp.MustCompile(`^\s*[A-Z][A-Z0-9.]*\s+.*,\s*([A-Za-z0-9_·<>+\-$]*\(SB\))\s*(//.*)?$`)

// scanAssembly checks that no instruction of the module's .s files has a data symbol (SB) as its destination.
func scanAssembly(repo string) (files int, lines int, bad []string) {
	filepath.Walk(repo, func(path string, info os.FileInfo, err error) error {
		if err != nil || info.IsDir() || !strings.HasSuffix(path, ".s") {
			return nil
		}
		f, err := os.Open(path)
		if err != nil {
			return nil
		}
		defer f.Close()
		files++
		sc := bufio.NewScanner(f)
		sc.Buffer(make([]byte, 1<<20), 1<<20)
		ln := 0
		for sc.Scan() {
			ln++
			l := sc.Text()
			t := strings.TrimSpace(l)
			if t == "" || strings.HasPrefix(t, "//") || strings.HasPrefix(t, "#") || strings.HasPrefix(t, "TEXT") || strings.HasPrefix(t, "DATA") || strings.HasPrefix(t, "GLOBL") || strings.HasSuffix(t, ":") {
				continue
			}
			lines++
			if m := asmDestRe.FindStringSubmatch(l); m != nil {
				op := strings.Fields(t)[0]
				if strings.HasPrefix(op, "CALL") || strings.HasPrefix(op, "JMP") || strings.HasPrefix(op, "CMP") || strings.HasPrefix(op, "TEST") || strings.HasPrefix(op, "LEA") && false {
					continue
				}
				// LEAQ sym(SB), R is a source; only a trailing (SB) operand is a destination
				bad = append(bad, fmt.Sprintf("%s:%d: %s", path, ln, t))
			}
		}
		return nil
	})
	return
}

func runSweep(repo string, cs *Contracts) (obls []*sweepObl, genErrs []string, nfuncs int, asmFiles int, asmLines int, asmBad []string) {
	for _, cfg := range configs {
		p, err := LoadProg(repo, cfg.name, cfg.tags, cs)
		if err != nil {
			genErrs = append(genErrs, fmt.Sprintf("cannot load configuration %s: %v", cfg.name, err))
			continue
		}
		sw := &sweeper{p: p, cfg: cfg.name}
		seen := map[*ssa.Function]bool{}
		var add func(fn *ssa.Function)
		add = func(fn *ssa.Function) {
			if seen[fn] || !sw.inModule(fn) || len(fn.Blocks) == 0 {
				return
			}
			if strings.HasSuffix(fn.Prog.Fset.Position(fn.Pos()).Filename, "_test.go") {
				return
			}
			seen[fn] = true
			sw.funcs = append(sw.funcs, fn)
			for _, a := range fn.AnonFuncs {
				add(a)
			}
		}
		for _, fn := range p.funcs {
			add(fn)
		}
		sort.Slice(sw.funcs, func(i, j int) bool { return FuncKey(sw.funcs[i]) < FuncKey(sw.funcs[j]) })
		sw.summarise()
		sw.check()
		obls = append(obls, sw.obls...)
		if len(sw.funcs) > nfuncs {
			nfuncs = len(sw.funcs)
		}
	}
	asmFiles, asmLines, asmBad = scanAssembly(repo)
	return
}
