package main

// Memory model: objects are resolved statically at VC-generation time (scalar
// replacement); only symbolically indexed regions become SMT arrays.

import (
	"sync"
	"fmt"
	"go/types"
	"strings"

	"golang.org/x/tools/go/ssa"
)

type Obligation struct {
	Name      string
	Kind      string
	Tags      []string
	Func      string
	Cfg       string
	Goal      Term
	PC        Term
	ScriptLen int
	Pos       string
	Text      string
	ex        *Exec
	// results
	Status string
	Solver string
	Time   float64
	Output string
	Vacuity bool // an obligation that must NOT be provable (false-refutation guard)
	Skolems []Term
	dupOf   *Obligation
}

type collector struct {
	written map[string]*writeRec
	firstID int // objects with ID >= firstID were created inside the loop body being explored
}

type writeRec struct {
	loc  Loc
	vals []*Val // pointer/slice values written (for target union at havoc)
}

type Exec struct {
	letSeq int
	staleInv []string // loop invariant conjuncts ignored because they could not be evaluated
	expandQ bool // expand constant-range quantifiers in goals (package initializers)
	storeChain map[string]storeRec // named array term -> the store that produced it (constant-index reads fold through it)
	nogrowHit map[int]bool
	p        *Prog
	root     *ssa.Function
	rootKey  string
	decls    []string
	script   []string
	ctr      int
	entry    map[string]*Val
	objCtr   int
	obls     []*Obligation
	colls    []*collector
	quiet    int
	oldState *State
	notes    []string
	ghost    *Obj
	globals  map[*ssa.Global]*Obj
	rootMods []modEntry
	hasMods  bool
	oblNames map[string]int
	depth    int
	trustedUsed map[string]bool
	calledKeys  map[string]bool
	uf       map[string]bool
	assumes  int
	stack    []string
	missingLoop []string
	cellMeta map[string]cellMeta
	specErrs []string
	noName   int
	inEntry  int
	preLen   int
	reach    map[*Obj]map[*Obj]bool
	dummies  map[string]*Obj
	qdecl    []qline
	scriptNames map[string]bool
	nameMemo map[string]memoEnt
	freshCtx int
	curSkolems []Term
	assertsHit map[string]bool
	flatCache  map[string][][]*ssa.Call
	pkgInitOf string
	specWhere string
	qscript  []qline
	qmu      sync.Mutex
}

type modEntry struct {
	obj    *Obj
	prefix string // region-key prefix after "id|"
	deep   bool
	text   string
	ranged bool // the entry covers only elements [off, off+n) of the region (a slice)
	off, n Term
}

func (ex *Exec) note(f string, a ...interface{}) {
	s := fmt.Sprintf(f, a...)
	for _, n := range ex.notes {
		if n == s {
			return
		}
	}
	ex.notes = append(ex.notes, s)
}

func (ex *Exec) fresh(prefix string) string {
	ex.ctr++
	prefix = sanitize(prefix)
	return fmt.Sprintf("%s!%d", prefix, ex.ctr)
}

func sanitize(s string) string {
	var b strings.Builder
	for _, r := range s {
		if (r >= 'a' && r <= 'z') || (r >= 'A' && r <= 'Z') || (r >= '0' && r <= '9') || r == '_' || r == '.' || r == '$' {
			b.WriteRune(r)
		} else {
			b.WriteByte('_')
		}
	}
	if b.Len() == 0 {
		return "v"
	}
	return b.String()
}

func (ex *Exec) declare(prefix string, s Sort) Term {
	n := ex.fresh(prefix)
	ex.decls = append(ex.decls, fmt.Sprintf("(declare-const %s %s)", n, s.String()))
	return Var(n, s)
}

// fact adds an unconditional assumption about declared constants only
// (type facts of fresh values); order independent.
func (ex *Exec) fact(t Term) {
	if t.IsTrue() {
		return
	}
	// facts that mention script-defined names must follow their definitions
	var buf []string
	for _, s := range symbolsOf(t.S, buf) {
		if ex.scriptNames[s] {
			ex.script = append(ex.script, "(assert "+t.S+")")
			return
		}
	}
	ex.decls = append(ex.decls, "(assert "+t.S+")")
}

// name binds a term to a definition so that its text is shared.
func (ex *Exec) name(t Term, hint string) Term {
	if t.Const != nil || len(t.S) <= 40 || ex.noName > 0 {
		return t
	}
	if ex.inEntry == 0 {
		if k, ok := ex.nameMemo[t.S]; ok && k.idx < len(ex.script) && ex.script[k.idx] == k.line {
			return Var(k.name, t.Sort)
		}
	}
	n := ex.fresh(hint)
	if ex.inEntry > 0 {
		ex.decls = append(ex.decls, fmt.Sprintf("(define-fun %s () %s %s)", n, t.Sort.String(), t.S))
		return Var(n, t.Sort)
	}
	line := fmt.Sprintf("(define-fun %s () %s %s)", n, t.Sort.String(), t.S)
	if ex.nameMemo == nil {
		ex.nameMemo = map[string]memoEnt{}
	}
	ex.nameMemo[t.S] = memoEnt{name: n, idx: len(ex.script), line: line}
	ex.script = append(ex.script, line)
	if ex.scriptNames == nil {
		ex.scriptNames = map[string]bool{}
	}
	ex.scriptNames[n] = true
	return Var(n, t.Sort)
}

func (ex *Exec) assume(pc, t Term) {
	f := Implies(pc, t)
	if f.IsTrue() {
		return
	}
	ex.assumes++
	ex.script = append(ex.script, "(assert "+f.S+")")
}

func (ex *Exec) oblige(st *State, kind, name string, goal Term, tags []string, pos, text string) {
	if ex.quiet > 0 {
		return
	}
	if goal.IsTrue() || st.pc.IsFalse() {
		// trivially discharged at generation time; still recorded for contract clauses
		if kind != "post" && kind != "pre" && kind != "inv-entry" && kind != "inv-keep" && kind != "lemma" {
			return
		}
	}
	k := ex.oblNames[name]
	ex.oblNames[name] = k + 1
	if k > 0 {
		name = fmt.Sprintf("%s~%d", name, k)
	}
	o := &Obligation{Name: ex.rootKey + "@" + ex.p.cfgName + "#" + name, Kind: kind, Tags: tags, Func: ex.rootKey, Cfg: ex.p.cfgName,
		Goal: goal, PC: st.pc, ScriptLen: len(ex.script), Pos: pos, Text: text, ex: ex}
	for _, sk := range ex.curSkolems {
		if containsToken(goal.S, sk.S) {
			o.Skolems = append(o.Skolems, sk)
		}
	}

	ex.obls = append(ex.obls, o)
	// assert-then-assume; a goal proved for arbitrary skolem constants is assumed universally
	ag := goal
	for _, sk := range o.Skolems {
		ex.ctr++
		bn := fmt.Sprintf("%s.b%d", sk.S, ex.ctr)
		ag = Term{S: fmt.Sprintf("(forall ((%s %s)) %s)", bn, sk.Sort.String(), replaceToken(ag.S, sk.S, bn)), Sort: BoolSort}
	}
	ex.assume(st.pc, ag)
}

func (ex *Exec) newObj(name string, t types.Type) *Obj {
	ex.objCtr++
	return &Obj{ID: ex.objCtr, Name: name, Typ: t, Fresh: ex.freshCtx > 0}
}

// ---------- type walk ----------

func (ex *Exec) isOpaqueStruct(t types.Type) bool {
	n, ok := types.Unalias(t).(*types.Named)
	if !ok {
		return false
	}
	if _, isStruct := n.Underlying().(*types.Struct); !isStruct {
		return false
	}
	pkg := n.Obj().Pkg()
	if pkg == nil {
		return false
	}
	return !strings.HasPrefix(pkg.Path(), ex.p.modulePath)
}

func (ex *Exec) typeAt(l Loc) types.Type {
	t := l.Obj.Typ
	steps := l.Steps
	if l.Obj.Backing {
		if len(steps) == 0 {
			return types.NewSlice(t)
		}
		steps = steps[1:]
	}
	for _, s := range steps {
		if strings.HasPrefix(s.Name, "$") {
			return ex.ghostType(l.Obj, s.Name)
		}
		switch u := under(t).(type) {
		case *types.Struct:
			if s.IsIdx {
				panic("index step on struct at " + l.String())
			}
			t = u.Field(s.Field).Type()
		case *types.Array:
			if !s.IsIdx {
				panic("field step on array at " + l.String())
			}
			t = u.Elem()
		default:
			panic(fmt.Sprintf("typeAt: cannot step into %s at %s", t, l.String()))
		}
	}
	return t
}

func (ex *Exec) ghostType(o *Obj, name string) types.Type {
	name = strings.TrimPrefix(name, "$")
	var d *GhostDecl
	if o == ex.ghost {
		d = ex.p.cs.Ghosts[name]
	} else {
		d = ex.p.cs.GhostF[typeKey(o.Typ)][name]
	}
	if d == nil {
		panic("unknown ghost " + name)
	}
	return ex.p.basicType(d.Type)
}

// leafKeys enumerates the region keys (suffix after "id|") of all leaves of
// type t below the given prefix.
func (ex *Exec) leafKeys(t types.Type, prefix string, out *[]leafInfo, depth int) {
	if depth > 12 {
		return
	}
	switch u := under(t).(type) {
	case *types.Struct:
		if ex.isOpaqueStruct(t) {
			*out = append(*out, leafInfo{prefix, t})
			return
		}
		for i := 0; i < u.NumFields(); i++ {
			ex.leafKeys(u.Field(i).Type(), prefix+"."+u.Field(i).Name(), out, depth+1)
		}
	case *types.Array:
		ex.leafKeys(u.Elem(), prefix+"[*]", out, depth+1)
	default:
		*out = append(*out, leafInfo{prefix, t})
	}
}

type leafInfo struct {
	key string
	typ types.Type
}

func (ex *Exec) objLeaves(o *Obj) []leafInfo {
	var out []leafInfo
	if o.Opaque {
		for n, d := range ex.p.cs.GhostF[typeKey(o.Typ)] {
			out = append(out, leafInfo{".$" + n, ex.p.basicType(d.Type)})
		}
		return out
	}
	if o == ex.ghost {
		for n, d := range ex.p.cs.Ghosts {
			out = append(out, leafInfo{".$" + n, ex.p.basicType(d.Type)})
		}
		return out
	}
	if o.Backing {
		ex.leafKeys(o.Typ, "[*]", &out, 0)
	} else {
		ex.leafKeys(o.Typ, "", &out, 0)
	}
	for n, d := range ex.p.cs.GhostF[typeKey(o.Typ)] {
		out = append(out, leafInfo{".$" + n, ex.p.basicType(d.Type)})
	}
	return out
}

// ---------- fresh / zero values ----------

func (ex *Exec) zeroVal(t types.Type) *Val {
	if isErrorType(t) {
		return &Val{K: KScalar, Typ: t, T: BVConst(0, 32)}
	}
	switch u := under(t).(type) {
	case *types.Basic:
		if isBool(t) {
			return &Val{K: KScalar, Typ: t, T: False}
		}
		if isString(t) {
			return &Val{K: KString, Typ: t, Len: BVConst(0, 64), T: BVConst(0, 64)}
		}
		if isUnsafePointer(t) {
			return &Val{K: KPtr, Typ: t, IsNil: True}
		}
		if w, _, ok := intWidth(t); ok {
			return &Val{K: KScalar, Typ: t, T: BVConst(0, w)}
		}
		return &Val{K: KOpaque, Typ: t}
	case *types.Pointer:
		return &Val{K: KPtr, Typ: t, IsNil: True}
	case *types.Slice:
		return &Val{K: KSlice, Typ: t, IsNil: True, Off: BVConst(0, 64), Len: BVConst(0, 64), Cap: BVConst(0, 64)}
	case *types.Interface:
		return &Val{K: KIface, Typ: t, Tag: BVConst(0, 16), Cases: map[string]*Val{}}
	case *types.Struct:
		if ex.isOpaqueStruct(t) {
			return &Val{K: KScalar, Typ: t, T: BVConst(0, 64)}
		}
		v := &Val{K: KStruct, Typ: t}
		for i := 0; i < u.NumFields(); i++ {
			v.Fs = append(v.Fs, ex.zeroVal(u.Field(i).Type()))
		}
		return v
	case *types.Array:
		return ex.zeroArr(u.Elem(), t)
	case *types.Signature:
		return &Val{K: KFunc, Typ: t, IsNil: True}
	case *types.Tuple:
		v := &Val{K: KTuple, Typ: t}
		for i := 0; i < u.Len(); i++ {
			v.Fs = append(v.Fs, ex.zeroVal(u.At(i).Type()))
		}
		return v
	}
	return &Val{K: KOpaque, Typ: t}
}

func (ex *Exec) zeroArr(elem types.Type, at types.Type) *Val {
	if w, _, ok := intWidth(elem); ok {
		return &Val{K: KArray, Typ: at, Elem: elem, T: ConstArr(w, BVConst(0, w))}
	}
	if isBool(elem) {
		return &Val{K: KArray, Typ: at, Elem: elem, T: ConstArr(8, BVConst(0, 8))}
	}
	if st, ok := under(elem).(*types.Struct); ok && !ex.isOpaqueStruct(elem) {
		v := &Val{K: KArray, Typ: at, Elem: elem}
		for i := 0; i < st.NumFields(); i++ {
			v.Fs = append(v.Fs, ex.zeroArr(st.Field(i).Type(), nil))
		}
		return v
	}
	return &Val{K: KOpaque, Typ: at}
}

// freshVal creates an unconstrained value of type t (with the facts that hold
// of every Go value of that type).
func (ex *Exec) freshVal(t types.Type, name string) *Val {
	if isErrorType(t) {
		return &Val{K: KScalar, Typ: t, T: ex.declare(name, BV(32))}
	}
	switch u := under(t).(type) {
	case *types.Basic:
		if isBool(t) {
			return &Val{K: KScalar, Typ: t, T: ex.declare(name, BoolSort)}
		}
		if isString(t) {
			l := ex.declare(name+".len", BV(64))
			ex.fact(And(SLe(BVConst(0, 64), l), SLe(l, BVConst(1<<40, 64))))
			return &Val{K: KString, Typ: t, Len: l, T: ex.declare(name+".str", BV(64))}
		}
		if isUnsafePointer(t) {
			return &Val{K: KOpaque, Typ: t}
		}
		if w, _, ok := intWidth(t); ok {
			return &Val{K: KScalar, Typ: t, T: ex.declare(name, BV(w))}
		}
		return &Val{K: KOpaque, Typ: t}
	case *types.Pointer:
		o := ex.newObj(name+"^", u.Elem())
		o.Symbolic = true
		if ex.isOpaqueStruct(u.Elem()) {
			o.Opaque = true
		}
		return &Val{K: KPtr, Typ: t, IsNil: ex.declare(name+".isnil", BoolSort), Tg: []Target{{G: True, Loc: Loc{Obj: o}}}}
	case *types.Slice:
		o := ex.newObj(name+"^", u.Elem())
		o.Symbolic = true
		o.Backing = true
		l := ex.declare(name+".len", BV(64))
		c := ex.declare(name+".cap", BV(64))
		n := ex.declare(name+".isnil", BoolSort)
		ex.fact(And(SLe(BVConst(0, 64), l), SLe(l, c), SLe(c, BVConst(1<<40, 64))))
		ex.fact(Implies(n, Eq(c, BVConst(0, 64))))
		return &Val{K: KSlice, Typ: t, IsNil: n, Off: BVConst(0, 64), Len: l, Cap: c, Tg: []Target{{G: True, Loc: Loc{Obj: o}}}}
	case *types.Interface:
		return ex.freshIface(t, name)
	case *types.Struct:
		if ex.isOpaqueStruct(t) {
			return &Val{K: KScalar, Typ: t, T: ex.declare(name, BV(64))}
		}
		v := &Val{K: KStruct, Typ: t}
		for i := 0; i < u.NumFields(); i++ {
			v.Fs = append(v.Fs, ex.freshVal(u.Field(i).Type(), name+"."+u.Field(i).Name()))
		}
		return v
	case *types.Array:
		return ex.freshArr(u.Elem(), t, name)
	case *types.Signature:
		return &Val{K: KFunc, Typ: t, IsNil: ex.declare(name+".isnil", BoolSort)}
	case *types.Tuple:
		v := &Val{K: KTuple, Typ: t}
		for i := 0; i < u.Len(); i++ {
			v.Fs = append(v.Fs, ex.freshVal(u.At(i).Type(), fmt.Sprintf("%s.%d", name, i)))
		}
		return v
	}
	return &Val{K: KOpaque, Typ: t}
}

func (ex *Exec) freshArr(elem types.Type, at types.Type, name string) *Val {
	if w, _, ok := intWidth(elem); ok {
		return &Val{K: KArray, Typ: at, Elem: elem, T: ex.declare(name, Arr(w))}
	}
	if isBool(elem) {
		return &Val{K: KArray, Typ: at, Elem: elem, T: ex.declare(name, Arr(8))}
	}
	if st, ok := under(elem).(*types.Struct); ok && !ex.isOpaqueStruct(elem) {
		v := &Val{K: KArray, Typ: at, Elem: elem}
		for i := 0; i < st.NumFields(); i++ {
			v.Fs = append(v.Fs, ex.freshArr(st.Field(i).Type(), nil, name+"."+st.Field(i).Name()))
		}
		return v
	}
	return &Val{K: KOpaque, Typ: at}
}

const tagOther = 1

func (ex *Exec) freshIface(t types.Type, name string) *Val {
	tag := ex.declare(name+".tag", BV(16))
	v := &Val{K: KIface, Typ: t, Tag: tag, Cases: map[string]*Val{}}
	cands, other := ex.p.candidates(t)
	var alts []Term
	alts = append(alts, Eq(tag, BVConst(0, 16)))
	if other {
		alts = append(alts, Eq(tag, BVConst(tagOther, 16)))
		o := ex.newObj(name+"^other", t)
		o.Symbolic = true
		o.Opaque = true
		v.Cases["other"] = &Val{K: KPtr, Typ: t, IsNil: False, Tg: []Target{{G: True, Loc: Loc{Obj: o}}}}
	}
	for _, c := range cands {
		alts = append(alts, Eq(tag, BVConst(int64(ex.p.typeTag(c)), 16)))
		pv := ex.freshVal(c, name+"^"+shortType(c))
		if pv.K == KPtr {
			pv.IsNil = False
		}
		v.Cases[typeKey(c)] = pv
	}
	ex.fact(Or(alts...))
	return v
}

func shortType(t types.Type) string {
	s := types.TypeString(t, func(p *types.Package) string { return "" })
	return sanitize(s)
}

// ---------- cell access ----------

func (ex *Exec) cellType(l Loc) types.Type { return ex.typeAt(l) }

func (ex *Exec) lookupCell(st *State, o *Obj, key string, leaf types.Type, isRegion bool) *Val {
	full := fmt.Sprintf("%d|%s", o.ID, key)
	if _, ok := ex.cellMeta[full]; !ok {
		ex.cellMeta[full] = cellMeta{obj: o, key: key, typ: leaf, region: isRegion}
	}
	if v, ok := st.cells[full]; ok {
		return v
	}
	if o.Symbolic {
		if v, ok := ex.entry[full]; ok {
			return v
		}
		var v *Val
		nm := o.Name + strings.ReplaceAll(key, "[*]", "")
		if o.Fresh {
			ex.freshCtx++
			defer func() { ex.freshCtx-- }()
		}
		if sd := ex.p.shapeFor(o, key); sd != nil && !isRegion {
			v = ex.evalShape(sd, o, leaf, nm)
		} else if isRegion {
			v = ex.freshArr(leaf, nil, nm)
		} else {
			v = ex.freshVal(leaf, nm)
		}
		ex.entry[full] = v
		return v
	}
	if isRegion {
		return ex.zeroArr(leaf, nil)
	}
	return ex.zeroVal(leaf)
}

func combinedIndex(l Loc) Term {
	var acc Term
	first := true
	for _, s := range l.Steps {
		if !s.IsIdx {
			continue
		}
		if first {
			acc = s.Idx
			first = false
			continue
		}
		acc = Add(Mul(acc, BVConst(s.N, 64)), s.Idx)
	}
	return acc
}

func regionKey(l Loc) string {
	k := l.Key()
	return k[strings.Index(k, "|")+1:]
}

func (ex *Exec) record(l Loc, v *Val) {
	for _, c := range ex.colls {
		if l.Obj.ID >= c.firstID {
			continue // object created inside the loop body: re-created in every iteration
		}
		k := l.Key()
		r := c.written[k]
		if r == nil {
			r = &writeRec{loc: l}
			c.written[k] = r
		}
		if v != nil && (v.K == KPtr || v.K == KSlice || v.K == KIface) {
			r.vals = append(r.vals, v)
		}
	}
}

// load reads a value of type t at location l.
func (ex *Exec) load(st *State, l Loc, t types.Type) *Val {
	if isErrorType(t) {
		return ex.loadLeaf(st, l, t)
	}
	switch u := under(t).(type) {
	case *types.Struct:
		if ex.isOpaqueStruct(t) {
			return ex.loadLeaf(st, l, t)
		}
		v := &Val{K: KStruct, Typ: t}
		for i := 0; i < u.NumFields(); i++ {
			v.Fs = append(v.Fs, ex.load(st, l.Field(i, u.Field(i).Name()), u.Field(i).Type()))
		}
		return v
	case *types.Array:
		if l.HasIdx() {
			ex.note("load of array nested in indexed region at %s", l.String())
			return ex.freshVal(t, "nested")
		}
		return ex.loadRegion(st, l.Index(BVConst(0, 64), u.Len()), u.Elem(), t)
	}
	return ex.loadLeaf(st, l, t)
}

// loadRegion snapshots the whole region whose element location pattern is l (last idx ignored).
func (ex *Exec) loadRegion(st *State, l Loc, elem types.Type, at types.Type) *Val {
	if st2, ok := under(elem).(*types.Struct); ok && !ex.isOpaqueStruct(elem) {
		v := &Val{K: KArray, Typ: at, Elem: elem}
		for i := 0; i < st2.NumFields(); i++ {
			v.Fs = append(v.Fs, ex.loadRegion(st, l.Field(i, st2.Field(i).Name()), st2.Field(i).Type(), nil))
		}
		return v
	}
	if _, ok := under(elem).(*types.Array); ok {
		ex.note("nested array region %s", l.String())
		return &Val{K: KOpaque, Typ: at}
	}
	if _, _, ok := intWidth(elem); !ok && !isBool(elem) {
		ex.note("non-integer array region %s (%s)", l.String(), elem)
		return &Val{K: KOpaque, Typ: at}
	}
	c := ex.lookupCell(st, l.Obj, regionKey(l), elem, true)
	return &Val{K: KArray, Typ: at, Elem: elem, T: c.T}
}

func (ex *Exec) loadLeaf(st *State, l Loc, t types.Type) *Val {
	if !l.HasIdx() {
		return ex.lookupCell(st, l.Obj, regionKey(l), t, false)
	}
	w, _, ok := intWidth(t)
	isb := isBool(t)
	if !ok && !isb {
		ex.note("load of non-integer leaf %s from indexed region %s", t, l.String())
		return ex.freshVal(t, "idxleaf")
	}
	c := ex.lookupCell(st, l.Obj, regionKey(l), t, true)
	if c.K != KArray || !c.T.Valid() {
		return ex.freshVal(t, "idxleaf")
	}
	sel := Select(c.T, combinedIndex(l))
	if v, ok := ex.constSelect(c.T, combinedIndex(l)); ok {
		sel = v
	}
	if isb {
		return &Val{K: KScalar, Typ: t, T: Ne(sel, BVConst(0, 8))}
	}
	_ = w
	return &Val{K: KScalar, Typ: t, T: sel}
}

func (ex *Exec) store(st *State, l Loc, v *Val) {
	t := ex.typeAt(l)
	ex.storeT(st, l, v, t)
}

func (ex *Exec) storeT(st *State, l Loc, v *Val, t types.Type) {
	if v == nil {
		return
	}
	switch u := under(t).(type) {
	case *types.Struct:
		if ex.isOpaqueStruct(t) || isErrorType(t) {
			break
		}
		if v.K != KStruct {
			ex.note("store of non-struct value into struct at %s", l.String())
			v = ex.freshVal(t, "badstruct")
		}
		for i := 0; i < u.NumFields(); i++ {
			ex.storeT(st, l.Field(i, u.Field(i).Name()), v.Fs[i], u.Field(i).Type())
		}
		return
	case *types.Array:
		if l.HasIdx() {
			ex.note("store of array nested in indexed region at %s", l.String())
			return
		}
		ex.storeRegion(st, l.Index(BVConst(0, 64), u.Len()), v, u.Elem())
		return
	}
	ex.storeLeaf(st, l, v, t)
}

func (ex *Exec) storeRegion(st *State, l Loc, v *Val, elem types.Type) {
	if st2, ok := under(elem).(*types.Struct); ok && !ex.isOpaqueStruct(elem) {
		for i := 0; i < st2.NumFields(); i++ {
			var fv *Val
			if v.K == KArray && i < len(v.Fs) {
				fv = v.Fs[i]
			} else {
				fv = ex.freshArr(st2.Field(i).Type(), nil, "region")
			}
			ex.storeRegion(st, l.Field(i, st2.Field(i).Name()), fv, st2.Field(i).Type())
		}
		return
	}
	if v.K != KArray || !v.T.Valid() {
		v = ex.freshArr(elem, nil, "region")
		if v.K != KArray {
			return
		}
	}
	ex.record(l, nil)
	ex.cellMeta[l.Key()] = cellMeta{obj: l.Obj, key: regionKey(l), typ: elem, region: true}
	st.cells[l.Key()] = &Val{K: KArray, Elem: elem, T: v.T}
}

func (ex *Exec) storeLeaf(st *State, l Loc, v *Val, t types.Type) {
	ex.record(l, v)
	if !l.HasIdx() {
		ex.cellMeta[l.Key()] = cellMeta{obj: l.Obj, key: regionKey(l), typ: t, region: false}
		st.cells[l.Key()] = v
		return
	}
	w, _, ok := intWidth(t)
	isb := isBool(t)
	if !ok && !isb {
		ex.note("store of non-integer leaf %s into indexed region %s", t, l.String())
		return
	}
	c := ex.lookupCell(st, l.Obj, regionKey(l), t, true)
	if c.K != KArray || !c.T.Valid() {
		return
	}
	var tv Term
	if v.K != KScalar {
		tv = ex.declare("badleaf", BV(w))
	} else if isb {
		tv = BoolToBV(v.T, 8)
	} else {
		tv = v.T
	}
	idx := combinedIndex(l)
	na := ex.name(Store(c.T, idx, tv), "mem")
	if ex.storeChain == nil {
		ex.storeChain = map[string]storeRec{}
	}
	if na.S != c.T.S {
		ex.storeChain[na.S] = storeRec{base: c.T, idx: idx, val: tv}
	}
	st.cells[l.Key()] = &Val{K: KArray, Elem: t, T: na}
}

type storeRec struct {
	base, idx, val Term
}

// constSelect folds a read at a constant index through stores at constant indices (and the all-zero array).
func (ex *Exec) constSelect(arr, idx Term) (Term, bool) {
	if idx.Const == nil {
		return Term{}, false
	}
	cur := arr
	for steps := 0; steps < 1<<20; steps++ {
		if r, ok := ex.storeChain[cur.S]; ok {
			if r.idx.Const == nil {
				return Term{}, false
			}
			if r.idx.Const.Cmp(idx.Const) == 0 {
				return r.val, true
			}
			cur = r.base
			continue
		}
		if strings.HasPrefix(cur.S, "((as const ") && strings.HasSuffix(cur.S, fmt.Sprintf(" (_ bv0 %d))", arr.Sort.W)) {
			return BVConst(0, arr.Sort.W), true
		}
		return Term{}, false
	}
	return Term{}, false
}

// havocLoc replaces everything stored under location prefix l by fresh values.
func (ex *Exec) havocPrefix(st *State, o *Obj, prefix string, why string) {
	for _, lf := range ex.objLeaves(o) {
		if !strings.HasPrefix(lf.key, prefix) {
			continue
		}
		// exact prefix boundary
		rest := lf.key[len(prefix):]
		if rest != "" && rest[0] != '.' && rest[0] != '[' {
			continue
		}
		full := fmt.Sprintf("%d|%s", o.ID, lf.key)
		nm := why + "." + o.Name + strings.ReplaceAll(lf.key, "[*]", "")
		isRegion := strings.Contains(lf.key, "[*]")
		var nv *Val
		if isRegion {
			nv = ex.freshArr(lf.typ, nil, nm)
			if nv.K != KArray {
				continue
			}
		} else {
			nv = ex.shapeHavoc(st, o, lf.key, lf.typ, nm)
		}
		for _, c := range ex.colls {
			if o.ID >= c.firstID {
				continue
			}
			if c.written[full] == nil {
				c.written[full] = &writeRec{loc: Loc{Obj: o}}
			}
		}
		ex.cellMeta[full] = cellMeta{obj: o, key: lf.key, typ: lf.typ, region: isRegion}
		st.cells[full] = nv
	}
}

// ---------- value merging ----------

func (ex *Exec) ite(c Term, a, b *Val) *Val {
	if c.IsTrue() || a == b {
		return a
	}
	if c.IsFalse() {
		return b
	}
	if a == nil {
		return b
	}
	if b == nil {
		return a
	}
	if a.K != b.K {
		if a.K == KOpaque || b.K == KOpaque {
			return &Val{K: KOpaque, Typ: a.Typ}
		}
		ex.note("merge of different value kinds %d/%d", a.K, b.K)
		return &Val{K: KOpaque, Typ: a.Typ}
	}
	switch a.K {
	case KScalar:
		if a.T.Sort != b.T.Sort {
			ex.note("merge of different sorts")
			return &Val{K: KOpaque, Typ: a.Typ}
		}
		return &Val{K: KScalar, Typ: a.Typ, T: ex.name(Ite(c, a.T, b.T), "m")}
	case KArray:
		v := &Val{K: KArray, Typ: a.Typ, Elem: a.Elem}
		if a.T.Valid() && b.T.Valid() {
			v.T = ex.name(Ite(c, a.T, b.T), "ma")
		}
		for i := range a.Fs {
			if i < len(b.Fs) {
				v.Fs = append(v.Fs, ex.ite(c, a.Fs[i], b.Fs[i]))
			}
		}
		return v
	case KPtr, KSlice:
		v := &Val{K: a.K, Typ: a.Typ, IsNil: ex.name(Ite(c, a.IsNil, b.IsNil), "mn")}
		v.Tg = ex.mergeTargets(c, a.Tg, b.Tg)
		if a.K == KSlice {
			v.Off = ex.name(Ite(c, a.Off, b.Off), "mo")
			v.Len = ex.name(Ite(c, a.Len, b.Len), "ml")
			v.Cap = ex.name(Ite(c, a.Cap, b.Cap), "mc")
		}
		return v
	case KIface:
		v := &Val{K: KIface, Typ: a.Typ, Tag: ex.name(Ite(c, a.Tag, b.Tag), "mt"), Cases: map[string]*Val{}}
		for k, x := range a.Cases {
			if y, ok := b.Cases[k]; ok {
				v.Cases[k] = ex.ite(c, x, y)
			} else {
				v.Cases[k] = x
			}
		}
		for k, y := range b.Cases {
			if _, ok := a.Cases[k]; !ok {
				v.Cases[k] = y
			}
		}
		return v
	case KStruct, KTuple:
		v := &Val{K: a.K, Typ: a.Typ}
		for i := range a.Fs {
			v.Fs = append(v.Fs, ex.ite(c, a.Fs[i], b.Fs[i]))
		}
		return v
	case KString:
		return &Val{K: KString, Typ: a.Typ, Len: ex.name(Ite(c, a.Len, b.Len), "msl"), T: ex.name(Ite(c, a.T, b.T), "ms")}
	case KFunc:
		if a.Fn == b.Fn && a.FnVar == b.FnVar {
			return a
		}
		return &Val{K: KFunc, Typ: a.Typ, IsNil: Ite(c, a.IsNil, b.IsNil)}
	case KUntyped:
		return a
	}
	return &Val{K: KOpaque, Typ: a.Typ}
}

func (ex *Exec) mergeTargets(c Term, a, b []Target) []Target {
	var out []Target
	for _, t := range a {
		out = append(out, Target{G: And(c, t.G), Loc: t.Loc, Limit: t.Limit, HasLimit: t.HasLimit})
	}
	nc := Not(c)
outer:
	for _, t := range b {
		g := And(nc, t.G)
		for i := range out {
			if out[i].Loc.SameStatic(t.Loc) && out[i].HasLimit == t.HasLimit && (!t.HasLimit || out[i].Limit.S == t.Limit.S) {
				out[i].G = Or(out[i].G, g)
				continue outer
			}
		}
		out = append(out, Target{G: g, Loc: t.Loc, Limit: t.Limit, HasLimit: t.HasLimit})
	}
	var res []Target
	for _, t := range out {
		if !t.G.IsFalse() {
			t.G = ex.name(t.G, "g")
			res = append(res, t)
		}
	}
	return res
}

// loadPtr reads through a pointer value.
func (ex *Exec) loadPtr(st *State, p *Val, t types.Type) *Val {
	if p.K != KPtr || len(p.Tg) == 0 {
		ex.note("load through unresolved pointer (%s)", t)
		return ex.freshVal(t, "deref")
	}
	var res *Val
	for i := len(p.Tg) - 1; i >= 0; i-- {
		v := ex.load(st, p.Tg[i].Loc, t)
		if res == nil {
			res = v
		} else {
			res = ex.ite(p.Tg[i].G, v, res)
		}
	}
	return res
}

func (ex *Exec) storePtr(st *State, p *Val, v *Val, t types.Type) {
	if p.K != KPtr || len(p.Tg) == 0 {
		ex.note("store through unresolved pointer (%s)", t)
		return
	}
	if len(p.Tg) == 1 {
		ex.storeT(st, p.Tg[0].Loc, v, t)
		return
	}
	for _, tg := range p.Tg {
		old := ex.load(st, tg.Loc, t)
		ex.storeT(st, tg.Loc, ex.ite(tg.G, v, old), t)
	}
}

// shapeHavoc produces the havocked value of a non-region leaf. Pointer, slice
// and interface cells keep their target objects (the points-to shape is
// preserved by contract-level havoc); nil-ness, slice bounds and the choice
// between nil and the previous dynamic type are unconstrained.
func (ex *Exec) shapeHavoc(st *State, o *Obj, key string, t types.Type, nm string) *Val {
	switch under(t).(type) {
	case *types.Pointer, *types.Slice, *types.Interface:
	default:
		return ex.freshVal(t, nm)
	}
	if isErrorType(t) {
		return ex.freshVal(t, nm)
	}
	cur := ex.lookupCell(st, o, key, t, false)
	switch cur.K {
	case KPtr:
		if len(cur.Tg) == 0 {
			return ex.freshVal(t, nm)
		}
		return &Val{K: KPtr, Typ: cur.Typ, Tg: cur.Tg, IsNil: ex.declare(nm+".isnil", BoolSort)}
	case KSlice:
		if len(cur.Tg) == 0 {
			return ex.freshVal(t, nm)
		}
		l := ex.declare(nm+".len", BV(64))
		c := ex.declare(nm+".cap", BV(64))
		off := ex.declare(nm+".off", BV(64))
		n := ex.declare(nm+".isnil", BoolSort)
		ex.fact(And(SLe(BVConst(0, 64), l), SLe(l, c), SLe(c, BVConst(1<<40, 64)), SLe(BVConst(0, 64), off), SLe(off, BVConst(1<<40, 64))))
		ex.fact(Implies(n, Eq(c, BVConst(0, 64))))
		return &Val{K: KSlice, Typ: cur.Typ, Tg: cur.Tg, IsNil: n, Off: off, Len: l, Cap: c}
	case KIface:
		if cur.Tag.IsConst() && cur.Tag.Const.Sign() == 0 {
			return ex.freshVal(t, nm)
		}
		tag := ex.declare(nm+".tag", BV(16))
		ex.fact(Or(Eq(tag, BVConst(0, 16)), Eq(tag, cur.Tag)))
		return &Val{K: KIface, Typ: cur.Typ, Tag: tag, Cases: cur.Cases}
	}
	return ex.freshVal(t, nm)
}

type memoEnt struct {
	name string
	idx  int
	line string
}

func containsToken(s, name string) bool {
	i := 0
	for {
		j := strings.Index(s[i:], name)
		if j < 0 {
			return false
		}
		j += i
		end := j + len(name)
		if (j == 0 || !isNameChar(s[j-1])) && (end >= len(s) || !isNameChar(s[end])) {
			return true
		}
		i = end
	}
}
