#!/bin/bash
# usage: run_mutant.sh <patch> <prop> [tier]   -- applies the patch to a scratch copy of /repo and runs the check; prints result
set -u
patch=$(readlink -f "$1"); prop=$2; tier=${3:-quick}
scratch=$(mktemp -d /tmp/gocv-mutant.XXXXXX)
trap 'rm -rf "$scratch"' EXIT
rsync -a --exclude .git /repo/ "$scratch/"
if ! (cd "$scratch" && patch -p1 -s < "$patch"); then echo "MUTANT $(basename $patch) $prop: PATCH-FAILED"; exit 3; fi
out=$(VERIF_REPO="$scratch" /verif/check "$prop" "$tier" 2>&1); code=$?
viol=$(echo "$out" | grep -c '^VIOLATION')
echo "MUTANT $(basename $patch) $prop: exit=$code violations=$viol"
echo "$out" | grep '^VIOLATION' | sed "s#$scratch#<tree>#g" | head -5
exit $code
