#!/bin/bash
# usage: run_all.sh [PROPERTY]   runs every must-fail mutant (of that property); exit 1 if one is NOT detected
cd /verif/selftest
fail=0
while read -r patch prop; do
  case "$patch" in ''|\#*) continue;; esac
  if [ -n "${1:-}" ] && [ "$1" != "$prop" ]; then continue; fi
  out=$(./run_mutant.sh mutants/$patch $prop quick 2>&1); code=$?
  if [ $code -eq 1 ]; then echo "selftest: $patch detected by $prop"; else echo "selftest: $patch NOT detected by $prop (exit $code)"; echo "$out" | tail -3; fail=1; fi
done < expect.txt
exit $fail
