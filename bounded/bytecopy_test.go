package flate

// Bounded stand-in (NOT a proof) for byteCopy, the overlapping LZ77 copy (an assumed contract for the deductive
// checks: its doubling scheme needs a periodicity argument the solvers do not finish). Explored exhaustively:
// every distance 1..600 with every length 0..600 (the decoder uses distances up to 32768 and lengths up to 258;
// byteCopy's control flow depends only on how often the distance fits into the length, and all quotients
// 0..600 occur), at two buffer positions, on random data. Checked: the contract's postcondition
// hist[curr+k] == hist[curr-dist+k] for all k < length (against a byte-by-byte reference copy), and that nothing
// outside [curr, curr+length) changes.

import (
	"bytes"
	"math/rand"
	"testing"
)

func TestBoundedByteCopy(t *testing.T) {
	rng := rand.New(rand.NewSource(1))
	explored, nfail := 0, 0
	for _, base := range []int{0, 777} {
		for dist := 1; dist <= 600; dist++ {
			for length := 0; length <= 600; length++ {
				curr := base + dist
				buf := make([]byte, curr+length+8)
				rng.Read(buf)
				want := append([]byte{}, buf...)
				for k := 0; k < length; k++ {
					want[curr+k] = want[curr-dist+k]
				}
				func() {
					defer func() {
						if r := recover(); r != nil {
							nfail++
							if nfail <= 3 {
								t.Errorf("BOUNDED-FAIL lens=[%d,%d,%d] prefill=0: byteCopy panics: %v", curr, dist, length, r)
							}
						}
					}()
					byteCopy(buf[:curr+length], curr, dist, length)
				}()
				explored++
				if !bytes.Equal(buf, want) {
					nfail++
					if nfail <= 3 {
						t.Errorf("BOUNDED-FAIL lens=[%d,%d,%d] prefill=0: byteCopy(curr, dist, length) differs from the byte-by-byte copy", curr, dist, length)
					}
				}
			}
		}
	}
	t.Logf("BOUNDED explored=%d failing=%d (byteCopy: distances 1..600 x lengths 0..600 x 2 positions)", explored, nfail)
}
