package huffman

// Bounded stand-in (NOT a proof) for (*LenLimitedCode).Generate, which the contract verifier keeps as an assumed
// contract (in-place Moffat code lengths, sorting, length limiting). Injected into package huffman with
// `go test -overlay`. Explored: VERIF_BOUNDED_HISTOGRAMS histograms (default 60000) of the three alphabet sizes
// the compressor uses (19 with limit 7, 30 and 286 with limit 15), drawn from eleven shapes (uniform, geometric,
// Fibonacci - deeper than the limit -, powers of two, one or two used symbols, sparse, counts near 65535, counts
// above 65535 when VERIF_BOUNDED_BIGCOUNTS=1), each through a fresh and through a reused generator.
// Checked: the assumed postcondition (every length <= limit, zero exactly for unused symbols), the Kraft sum is
// at most 1 and exactly 1 when two or more symbols are used (a complete code, as inflaters require), the return
// value is the number of used symbols; then GenerateCode2 on the lengths gives distinct prefix-free codes.

import (
	"fmt"
	"math/rand"
	"os"
	"strconv"
	"testing"
)

func hEnvInt(name string, def int) int {
	if v := os.Getenv(name); v != "" {
		if n, err := strconv.Atoi(v); err == nil {
			return n
		}
	}
	return def
}

func boundedHistogram(rng *rand.Rand, n int, shape int, big bool) []uint32 {
	h := make([]uint32, n)
	max := uint32(65535)
	switch shape {
	case 0:
		for i := range h {
			h[i] = 1 + uint32(rng.Intn(100))
		}
	case 1:
		v := float64(max)
		for i := range h {
			h[i] = uint32(v)
			v *= 0.5 + rng.Float64()*0.45
			if v < 1 {
				v = 1
			}
		}
	case 2: // Fibonacci: the optimal tree is a chain
		a, b := uint32(1), uint32(1)
		for i := range h {
			h[i] = a
			a, b = b, a+b
			if a > max {
				a, b = 1, 1
			}
		}
	case 3:
		for i := range h {
			h[i] = 1 << uint(rng.Intn(16))
		}
	case 4:
		h[rng.Intn(n)] = 1 + uint32(rng.Intn(1000))
	case 5:
		h[rng.Intn(n)] = 1 + uint32(rng.Intn(1000))
		h[rng.Intn(n)] += 1 + uint32(rng.Intn(1000))
	case 6:
		for i := range h {
			if rng.Intn(8) == 0 {
				h[i] = 1 + uint32(rng.Intn(5000))
			}
		}
		h[rng.Intn(n)]++
	case 7:
		for i := range h {
			h[i] = max - uint32(rng.Intn(3))
		}
	case 8:
		for i := range h {
			h[i] = 1
		}
		h[rng.Intn(n)] = max
	case 9:
		for i := range h {
			h[i] = uint32(rng.ExpFloat64()*300) + uint32(rng.Intn(2))
		}
		h[rng.Intn(n)]++
	default:
		for i := range h {
			h[i] = uint32(rng.Intn(3))
		}
		h[rng.Intn(n)]++
	}
	if big && rng.Intn(4) == 0 {
		h[rng.Intn(n)] = 65536 + uint32(rng.Intn(1<<20))
	}
	rng.Shuffle(n, func(i, j int) { h[i], h[j] = h[j], h[i] })
	return h
}

func boundedCheckGenerate(l *LenLimitedCode, limit int, h []uint32) (msg string) {
	defer func() {
		if r := recover(); r != nil {
			msg = fmt.Sprintf("Generate panics: %v", r)
		}
	}()
	lens := make([]uint32, len(h))
	for i := range lens {
		lens[i] = 99 // Generate must overwrite everything
	}
	hist := append([]uint32{}, h...)
	num := l.Generate(limit, hist, lens)
	used := 0
	kraft := uint64(0)
	for i, v := range h {
		if v != 0 {
			used++
		}
		if lens[i] > uint32(limit) {
			return fmt.Sprintf("symbol %d gets length %d, limit %d", i, lens[i], limit)
		}
		if (v == 0) != (lens[i] == 0) {
			return fmt.Sprintf("symbol %d has count %d and length %d", i, v, lens[i])
		}
		if lens[i] != 0 {
			kraft += 1 << (15 - lens[i])
		}
	}
	if num != used {
		return fmt.Sprintf("Generate returns %d, %d symbols are used", num, used)
	}
	if kraft > 1<<15 {
		return fmt.Sprintf("over-subscribed code: Kraft sum %d/32768", kraft)
	}
	if used >= 2 && kraft != 1<<15 {
		return fmt.Sprintf("incomplete code for %d used symbols: Kraft sum %d/32768", used, kraft)
	}
	codes := append([]uint32{}, lens...)
	GenerateCode2(codes)
	for i := range codes {
		li := lens[i]
		if codes[i]>>24 != li || (li == 0 && codes[i] != 0) {
			return fmt.Sprintf("GenerateCode2: symbol %d: entry %#x for length %d", i, codes[i], li)
		}
		if li == 0 {
			continue
		}
		ci := codes[i] & 0xffffff
		if ci>>li != 0 {
			return fmt.Sprintf("GenerateCode2: code of symbol %d does not fit its %d bits", i, li)
		}
		for j := 0; j < i; j++ {
			lj := lens[j]
			if lj == 0 {
				continue
			}
			m := li
			if lj < m {
				m = lj
			}
			// codes are stored bit-reversed (LSB first): one is a prefix of the other iff the low m bits agree
			if ci&(1<<m-1) == (codes[j]&0xffffff)&(1<<m-1) {
				return fmt.Sprintf("GenerateCode2: codes of symbols %d and %d are not prefix-free", j, i)
			}
		}
	}
	return ""
}

func TestBoundedHuffmanGenerate(t *testing.T) {
	n := hEnvInt("VERIF_BOUNDED_HISTOGRAMS", 60000)
	big := os.Getenv("VERIF_BOUNDED_BIGCOUNTS") == "1"
	rng := rand.New(rand.NewSource(int64(hEnvInt("VERIF_BOUNDED_SEED", 20260102))))
	reused := map[int]*LenLimitedCode{19: NewLenLimitedCode(), 30: NewLenLimitedCode(), 286: NewLenLimitedCode()}
	seen := map[string]bool{}
	explored, nfail := 0, 0
	for i := 0; i < n; i++ {
		size, limit := 286, 15
		switch i % 3 {
		case 1:
			size = 30
		case 2:
			size, limit = 19, 7
		}
		h := boundedHistogram(rng, size, (i/3)%11, big)
		for _, g := range []*LenLimitedCode{NewLenLimitedCode(), reused[size]} {
			explored++
			if m := boundedCheckGenerate(g, limit, h); m != "" {
				nfail++
				cls := ""
				for _, r := range m {
					if r < '0' || r > '9' {
						cls += string(r)
					}
				}
				if !seen[cls] {
					seen[cls] = true
					s := ""
					for k, v := range h {
						if k > 0 {
							s += ","
						}
						s += strconv.Itoa(int(v))
					}
					t.Errorf("BOUNDED-FAIL lens=[%s] prefill=%d: %s", s, limit, m)
				}
			}
		}
	}
	t.Logf("BOUNDED explored=%d failing=%d (huffman.Generate + GenerateCode2, histograms of 19/30/286 symbols)", explored, nfail)
}

// TestBoundedHuffmanGenerateReplay re-runs one recorded histogram: VERIF_BOUNDED_KIND=huff VERIF_BOUNDED_LENS=<counts> VERIF_BOUNDED_PREFILL=<limit>
func TestBoundedHuffmanGenerateReplay(t *testing.T) {
	if os.Getenv("VERIF_BOUNDED_KIND") != "huff" {
		t.Skip("no histogram to replay")
	}
	var h []uint32
	cur, have := uint32(0), false
	for _, r := range os.Getenv("VERIF_BOUNDED_LENS") + "," {
		if r >= '0' && r <= '9' {
			cur = cur*10 + uint32(r-'0')
			have = true
		} else if have {
			h = append(h, cur)
			cur, have = 0, false
		}
	}
	limit := hEnvInt("VERIF_BOUNDED_PREFILL", 15)
	if m := boundedCheckGenerate(NewLenLimitedCode(), limit, h); m != "" {
		t.Fatalf("histogram %v, limit %d: %s", h, limit, m)
	}
}
