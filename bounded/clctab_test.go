package flate

// Bounded stand-in (NOT a proof) for GenerateForHeader, the builder of the code-length-code decoding table
// (assumed contract clcOK in the deductive checks). Explored: every vector of code-length counts (lengths 1..7)
// of a code with at most 19 symbols that is not over-subscribed - complete and incomplete -, symbols in ascending
// and descending order, against an empty table and a table left by a previous block. Checked: no panic, the
// predicate clcOK, every canonical code decodes (by the lookup of readLitDistLens) to its symbol and length,
// sampled unmatched patterns decode as invalid.

import (
	"fmt"
	"math/rand"
	"os"
	"strconv"
	"strings"
	"testing"
)

func boundedClcDecode(t *smallHuffCodeTable, b uint64) (sym uint32, bitCount uint32, ok bool) {
	nextBits := uint16(b & ((1 << distLookupBits) - 1))
	nextSym := t.ShortCodeLookup[nextBits]
	if nextSym&smallFlagBit != 0 {
		return 0, 0, false // clcOK excludes long-code entries
	}
	bitCount = uint32(nextSym >> smallShortCodeLenOffset)
	if bitCount == 0 {
		return 0, 0, false
	}
	return uint32(nextSym & smallShortSymMask), bitCount, true
}

func boundedCheckClc(lens []uint8, prefill *smallHuffCodeTable, rng *rand.Rand) (msg string) {
	var codes [codeLenCodes]huffCode
	var count [16]uint16
	for i, l := range lens {
		codes[i].Set(0, uint32(l))
		count[l]++
	}
	for i := len(lens); i < codeLenCodes; i++ {
		count[0]++
	}
	if setCodes(codes[:], count[:]) != 0 {
		return "setCodes rejects a code that is not over-subscribed"
	}
	canon := codes
	table := *prefill
	defer func() {
		if r := recover(); r != nil {
			msg = fmt.Sprintf("GenerateForHeader panics: %v", r)
		}
	}()
	table.GenerateForHeader(codes[:], count[:], codeLenCodes)
	for j, e := range table.ShortCodeLookup {
		if e&smallFlagBit != 0 || e>>11 > 7 {
			return fmt.Sprintf("clcOK violated: ShortCodeLookup[%d] = %#x", j, e)
		}
	}
	for s := 0; s < codeLenCodes; s++ {
		l := canon[s].Length()
		if l == 0 {
			continue
		}
		c := uint64(canon[s].Code())
		for k := 0; k < 3; k++ {
			ext := uint64(0)
			if k == 1 {
				ext = 1<<20 - 1
			} else if k == 2 {
				ext = uint64(rng.Uint32())
			}
			sym, bc, ok := boundedClcDecode(&table, c|ext<<l)
			if !ok || sym != uint32(s) || bc != l {
				return fmt.Sprintf("code length symbol %d (length %d, code %#x) followed by %#x decodes to (sym %d, %d bits, valid %v)", s, l, c, ext, sym, bc, ok)
			}
		}
	}
	for k := 0; k < 6; k++ {
		b := uint64(rng.Uint32()) & (1<<10 - 1)
		match := false
		for s := 0; s < codeLenCodes && !match; s++ {
			l := canon[s].Length()
			if l != 0 && b&(1<<l-1) == uint64(canon[s].Code()) {
				match = true
			}
		}
		if match {
			continue
		}
		if sym, bc, ok := boundedClcDecode(&table, b); ok {
			return fmt.Sprintf("bit pattern %#x matches no code length code but decodes to symbol %d with %d bits", b, sym, bc)
		}
	}
	return ""
}

func TestBoundedClcTable(t *testing.T) {
	zero := &smallHuffCodeTable{}
	prev := &smallHuffCodeTable{}
	{
		lens := []uint8{1, 2, 3, 4, 5, 6, 7, 7}
		var codes [codeLenCodes]huffCode
		var count [16]uint16
		for i, l := range lens {
			codes[i].Set(0, uint32(l))
			count[l]++
		}
		func() {
			defer func() { recover() }()
			if setCodes(codes[:], count[:]) == 0 {
				prev.GenerateForHeader(codes[:], count[:], codeLenCodes)
			}
		}()
	}
	rng := rand.New(rand.NewSource(1))
	explored, nfail := 0, 0
	seen := map[string]bool{}
	var cnt [8]int
	var rec func(l, rem, n int)
	rec = func(l, rem, n int) {
		if l == 8 {
			var asc []uint8
			for ll := 1; ll <= 7; ll++ {
				for k := 0; k < cnt[ll]; k++ {
					asc = append(asc, uint8(ll))
				}
			}
			// the empty code (all nineteen lengths zero) is included: no bit pattern may decode then
			desc := make([]uint8, len(asc))
			for i, x := range asc {
				desc[len(asc)-1-i] = x
			}
			for _, lens := range [][]uint8{asc, desc} {
				for pi, pf := range []*smallHuffCodeTable{zero, prev} {
					explored++
					if m := boundedCheckClc(lens, pf, rng); m != "" {
						nfail++
						cls := boundedClass(m)
						if !seen[cls] {
							seen[cls] = true
							t.Errorf("BOUNDED-FAIL lens=[%s] prefill=%d: %s", boundedLensString(lens), pi, m)
						}
					}
				}
			}
			return
		}
		unit := 1 << (7 - l)
		for c := 0; c <= n && c*unit <= rem; c++ {
			cnt[l] = c
			rec(l+1, rem-c*unit, n-c)
		}
		cnt[l] = 0
	}
	rec(1, 1<<7, codeLenCodes)
	t.Logf("BOUNDED explored=%d failing=%d (code length code, 0..19 symbols, lengths 1..7, complete, incomplete and empty)", explored, nfail)
}

// TestBoundedClcTableReplay re-runs one recorded input: VERIF_BOUNDED_LENS="l0,l1,..." VERIF_BOUNDED_PREFILL=0|1
func TestBoundedClcTableReplay(t *testing.T) {
	spec := os.Getenv("VERIF_BOUNDED_LENS")
	if spec == "" || os.Getenv("VERIF_BOUNDED_KIND") != "clc" {
		t.Skip("no clc input to replay")
	}
	var lens []uint8
	for _, f := range strings.Split(spec, ",") {
		n, _ := strconv.Atoi(strings.TrimSpace(f))
		lens = append(lens, uint8(n))
	}
	pf := &smallHuffCodeTable{}
	if os.Getenv("VERIF_BOUNDED_PREFILL") == "1" {
		l0 := []uint8{1, 2, 3, 4, 5, 6, 7, 7}
		var codes [codeLenCodes]huffCode
		var count [16]uint16
		for i, l := range l0 {
			codes[i].Set(0, uint32(l))
			count[l]++
		}
		if setCodes(codes[:], count[:]) == 0 {
			pf.GenerateForHeader(codes[:], count[:], codeLenCodes)
		}
	}
	if m := boundedCheckClc(lens, pf, rand.New(rand.NewSource(1))); m != "" {
		t.Fatalf("code length code lengths [%s]: %s", spec, m)
	}
}
