package deflate

// Bounded stand-in (NOT a proof) for (*dynamicHeader).writeTo with prepare / prepareAlphabets / alphabet /
// numRepeat / zeroRepeat / codeSize - the dynamic block header writer, an assumed contract for the deductive checks.
// Injected into package deflate with `go test -overlay`. Explored: VERIF_BOUNDED_WHEADERS (default 20000) pairs of
// literal/length and distance code length vectors (complete codes from random histograms of five shapes, long runs
// of equal lengths and of zeros to drive every repeat code, no distance code at all, one distance code), for both
// values of the final-block flag and at three starting bit offsets of the bit buffer.
// Checked: the bits written parse - with an independent parser of RFC 1951 section 3.2.7 contained in this file -
// to BFINAL/BTYPE=2, to exactly the literal/length and distance code lengths that were passed in (trailing zero
// lengths trimmed as HLIT/HDIST allow; a lone distance code of length 1 when none is used), with a complete or
// single-code code length code; the assumed postcondition (bit buffer invariant, at most 1000 bytes) holds.

import (
	"fmt"
	"math/bits"
	"math/rand"
	"os"
	"sort"
	"strconv"
	"testing"
)

func wEnvInt(name string, def int) int {
	if v := os.Getenv(name); v != "" {
		if n, err := strconv.Atoi(v); err == nil {
			return n
		}
	}
	return def
}

// wRandomLengths: a complete prefix code (max length 15) for n used symbols
func wRandomLengths(rng *rand.Rand, n int, shape int) []uint8 {
	if n == 1 {
		return []uint8{1}
	}
	freq := make([]float64, n)
	for i := range freq {
		switch shape {
		case 0:
			freq[i] = 1 + rng.Float64()
		case 1:
			freq[i] = 1 / (1 + float64(i)*rng.Float64())
		case 2:
			freq[i] = float64(uint64(1) << uint(rng.Intn(20)))
		case 3:
			freq[i] = 1 // flat: long runs of equal lengths
		default:
			freq[i] = rng.ExpFloat64() + 1e-6
		}
	}
	type node struct {
		w    float64
		syms []int
	}
	var h []node
	for i, f := range freq {
		h = append(h, node{f, []int{i}})
	}
	lens := make([]int, n)
	for len(h) > 1 {
		sort.SliceStable(h, func(i, j int) bool { return h[i].w < h[j].w })
		a, b := h[0], h[1]
		for _, s := range a.syms {
			lens[s]++
		}
		for _, s := range b.syms {
			lens[s]++
		}
		h = append([]node{{a.w + b.w, append(append([]int{}, a.syms...), b.syms...)}}, h[2:]...)
	}
	total := 0
	for i := range lens {
		if lens[i] > 15 {
			lens[i] = 15
		}
		total += 1 << (15 - lens[i])
	}
	for total > 1<<15 {
		best := -1
		for i := range lens {
			if lens[i] < 15 && (best < 0 || lens[i] > lens[best]) {
				best = i
			}
		}
		total -= 1 << (15 - lens[best] - 1)
		lens[best]++
	}
	for total < 1<<15 {
		done := false
		for l := 15; l >= 2 && !done; l-- {
			for i := range lens {
				if lens[i] == l && total+(1<<(15-l)) <= 1<<15 {
					lens[i]--
					total += 1 << (15 - l)
					done = true
					break
				}
			}
		}
		if !done {
			break
		}
	}
	out := make([]uint8, n)
	for i, l := range lens {
		out[i] = uint8(l)
	}
	return out
}

type wBitReader struct {
	data []byte
	pos  uint // bit position
}

func (r *wBitReader) bits(n uint) (uint32, bool) {
	v := uint32(0)
	for i := uint(0); i < n; i++ {
		byteIdx := (r.pos + i) / 8
		if int(byteIdx) >= len(r.data) {
			return 0, false
		}
		v |= uint32((r.data[byteIdx]>>((r.pos+i)%8))&1) << i
	}
	r.pos += n
	return v, true
}

// wParseHeader parses a dynamic block header (RFC 1951 3.2.7) and returns BFINAL and the two length vectors.
func wParseHeader(r *wBitReader) (final uint32, lit []uint8, dist []uint8, clKraft int, err string) {
	var ok bool
	if final, ok = r.bits(1); !ok {
		return 0, nil, nil, 0, "truncated"
	}
	if bt, _ := r.bits(2); bt != 2 {
		return 0, nil, nil, 0, fmt.Sprintf("BTYPE %d", bt)
	}
	hlit, _ := r.bits(5)
	hdist, _ := r.bits(5)
	hclen, _ := r.bits(4)
	order := []int{16, 17, 18, 0, 8, 7, 9, 6, 10, 5, 11, 4, 12, 3, 13, 2, 14, 1, 15}
	var cl [19]uint8
	for i := 0; i < int(hclen)+4; i++ {
		v, ok := r.bits(3)
		if !ok {
			return 0, nil, nil, 0, "truncated in code length code lengths"
		}
		cl[order[i]] = uint8(v)
	}
	// canonical code of the code length alphabet
	var count [8]int
	for _, l := range cl {
		count[l]++
	}
	count[0] = 0
	var next [9]uint32
	code := uint32(0)
	for l := 1; l <= 7; l++ {
		code = (code + uint32(count[l-1])) << 1
		next[l] = code
		clKraft += count[l] << (7 - l)
	}
	type ent struct {
		code uint32
		len  uint8
		sym  int
	}
	var ents []ent
	for s, l := range cl {
		if l > 0 {
			ents = append(ents, ent{next[l], l, s})
			next[l]++
		}
	}
	readSym := func() (int, bool) {
		acc, n := uint32(0), uint8(0)
		for n < 7 {
			b, ok := r.bits(1)
			if !ok {
				return 0, false
			}
			acc = acc<<1 | b
			n++
			for _, e := range ents {
				if e.len == n && e.code == acc {
					return e.sym, true
				}
			}
		}
		return 0, false
	}
	total := int(hlit) + 257 + int(hdist) + 1
	lens := make([]uint8, 0, total)
	for len(lens) < total {
		s, ok := readSym()
		if !ok {
			return 0, nil, nil, 0, fmt.Sprintf("undecodable code length symbol at position %d", len(lens))
		}
		switch {
		case s < 16:
			lens = append(lens, uint8(s))
		case s == 16:
			if len(lens) == 0 {
				return 0, nil, nil, 0, "repeat with nothing to repeat"
			}
			n, _ := r.bits(2)
			for k := 0; k < int(n)+3; k++ {
				lens = append(lens, lens[len(lens)-1])
			}
		case s == 17:
			n, _ := r.bits(3)
			for k := 0; k < int(n)+3; k++ {
				lens = append(lens, 0)
			}
		default:
			n, _ := r.bits(7)
			for k := 0; k < int(n)+11; k++ {
				lens = append(lens, 0)
			}
		}
	}
	if len(lens) != total {
		return 0, nil, nil, 0, fmt.Sprintf("%d code lengths for a declared total of %d", len(lens), total)
	}
	return final, lens[:hlit+257], lens[hlit+257:], clKraft, ""
}

func wCheckHeader(litLens, distLens []uint8, eos bool, startBits int) (msg string) {
	var h histogram
	for i, l := range litLens {
		h.literalCodes[i] = uint32(l) << 24
	}
	for i, l := range distLens {
		h.distanceCodes[i] = uint32(l) << 24
	}
	b := &BitBuf{output: make([]byte, 8192)}
	if startBits > 0 {
		b.WriteBit(0, uint8(startBits))
	}
	defer func() {
		if r := recover(); r != nil {
			msg = fmt.Sprintf("writeTo panics: %v", r)
		}
	}()
	c := newDynamicHeader()
	c.writeTo(&h, eos, b)
	if !(0 <= b.idx && b.idx <= 1000 && 0 <= b.bitLen && b.bitLen <= 64) {
		return fmt.Sprintf("assumed postcondition violated: idx %d bitLen %d", b.idx, b.bitLen)
	}
	b.flushLastByte()
	r := &wBitReader{data: b.output[:b.idx], pos: uint(startBits)}
	final, lit, dist, clKraft, perr := wParseHeader(r)
	if perr != "" {
		return "the header written does not parse: " + perr
	}
	if (final == 1) != eos {
		return fmt.Sprintf("BFINAL is %d for eos=%v", final, eos)
	}
	if clKraft != 1<<7 && clKraft != 1<<6 {
		return fmt.Sprintf("code length code is neither complete nor a single 1-bit code (Kraft sum %d/128)", clKraft)
	}
	trim := func(x []uint8) []uint8 {
		for len(x) > 0 && x[len(x)-1] == 0 {
			x = x[:len(x)-1]
		}
		return x
	}
	wantLit, wantDist := trim(litLens), trim(distLens)
	if len(wantDist) == 0 {
		wantDist = []uint8{1}
	}
	if fmt.Sprint(trim(lit)) != fmt.Sprint(wantLit) || len(lit) < 257 {
		return fmt.Sprintf("literal/length code lengths read back differ: wrote %v, header says %v", wantLit, lit)
	}
	if fmt.Sprint(trim(dist)) != fmt.Sprint(wantDist) {
		return fmt.Sprintf("distance code lengths read back differ: wrote %v, header says %v", wantDist, dist)
	}
	_ = bits.Len
	return ""
}

func TestBoundedHeaderWriter(t *testing.T) {
	n := wEnvInt("VERIF_BOUNDED_WHEADERS", 20000)
	rng := rand.New(rand.NewSource(int64(wEnvInt("VERIF_BOUNDED_SEED", 20260102))))
	seen := map[string]bool{}
	explored, nfail := 0, 0
	for i := 0; i < n; i++ {
		litLens := make([]uint8, 286)
		used := 2 + rng.Intn(285)
		if i%5 == 0 {
			used = 286
		}
		ll := wRandomLengths(rng, used, i%5)
		litLens[256] = ll[0]
		k := 1
		var order []int
		if i%3 == 0 {
			for s := 0; s < 286; s++ { // contiguous: long runs
				order = append(order, s)
			}
		} else {
			order = rng.Perm(286)
		}
		for _, s := range order {
			if s == 256 || k >= len(ll) {
				continue
			}
			litLens[s] = ll[k]
			k++
		}
		var distLens []uint8
		switch i % 7 {
		case 0:
			distLens = make([]uint8, 30) // no distance code at all
		default:
			distLens = make([]uint8, 30)
			du := 1 + rng.Intn(30)
			dl := wRandomLengths(rng, du, (i/5)%5)
			perm := rng.Perm(30)
			if i%2 == 0 {
				sort.Ints(perm[:du])
			}
			for j, s := range perm[:du] {
				distLens[s] = dl[j]
			}
		}
		for _, eos := range []bool{false, true} {
			explored++
			if m := wCheckHeader(litLens, distLens, eos, []int{0, 3, 61}[i%3]); m != "" {
				nfail++
				cls := ""
				for _, r := range m {
					if (r < '0' || r > '9') && r != ' ' && r != '[' && r != ']' {
						cls += string(r)
					}
				}
				if len(cls) > 60 {
					cls = cls[:60]
				}
				if !seen[cls] {
					seen[cls] = true
					s := ""
					for q, v := range litLens {
						if q > 0 {
							s += ","
						}
						s += strconv.Itoa(int(v))
					}
					d := ""
					for q, v := range distLens {
						if q > 0 {
							d += ","
						}
						d += strconv.Itoa(int(v))
					}
					t.Errorf("BOUNDED-FAIL lens=[%s] prefill=%d: %s | dist=[%s]", s, i%3, m, d)
				}
			}
		}
	}
	// every run length: a run of exactly r zeros (and of exactly r equal non-zero lengths) between two other
	// lengths, for r = 1..283, so that each boundary of the repeat codes (3, 6/7, 10/11, 138/139, multiples) occurs
	report := func(litLens, distLens []uint8, tag int, m string) {
		nfail++
		cls := ""
		for _, r := range m {
			if (r < '0' || r > '9') && r != ' ' && r != '[' && r != ']' {
				cls += string(r)
			}
		}
		if len(cls) > 60 {
			cls = cls[:60]
		}
		if seen[cls] {
			return
		}
		seen[cls] = true
		s, d := "", ""
		for q, v := range litLens {
			if q > 0 {
				s += ","
			}
			s += strconv.Itoa(int(v))
		}
		for q, v := range distLens {
			if q > 0 {
				d += ","
			}
			d += strconv.Itoa(int(v))
		}
		t.Errorf("BOUNDED-FAIL lens=[%s] prefill=%d: %s | dist=[%s]", s, tag, m, d)
	}
	for r := 1; r <= 283; r++ {
		for variant := 0; variant < 2; variant++ {
			litLens := make([]uint8, 286)
			// symbol 0 and symbol r+1 frame the run; the end-of-block symbol needs a code too
			fill := uint8(0)
			if variant == 1 {
				fill = 9
			}
			litLens[0] = 2
			for k := 1; k <= r && k < 286; k++ {
				litLens[k] = fill
			}
			if r+1 < 286 {
				litLens[r+1] = 3
			}
			if litLens[256] == 0 {
				litLens[256] = 3
			}
			distLens := make([]uint8, 30)
			distLens[0] = 1
			for _, eos := range []bool{false, true} {
				explored++
				// the lengths need not form a complete code: the header writer only transcribes them
				if m := wCheckHeader(litLens, distLens, eos, r%3); m != "" {
					report(litLens, distLens, r%3, m)
				}
			}
		}
	}
	t.Logf("BOUNDED explored=%d failing=%d (dynamic header writer: code length vectors x final flag)", explored, nfail)
}
