package flate

// Bounded stand-in (NOT a proof) for the composition of the dynamic-header table builders that the contract
// verifier keeps as assumed contracts: codeLenCodes, GenerateForHeader, setCodes, genForDists,
// setAndExpandLitLenHuffCode (calcCodeForLit, expandLenCodes) and genForLitLen. The real header parser
// (*inflate).setupDynamicHeader is run on dynamic block headers written by this file for randomly drawn complete
// prefix codes (VERIF_BOUNDED_HEADERS headers, default 3000; alphabet sizes 257..286 and 1..30; skewed, flat and
// degenerate shapes; each in the three multi-symbol modes the parser selects from BFINAL and the input size).
// Checked for every header: the parser accepts it; the tables satisfy the Go transcriptions of the contract
// predicates litTabOK / distTabOK; for VERIF_BOUNDED_PATTERNS random 64-bit patterns (default 400) the two-level
// lookup of the decode loop yields exactly the symbols that canonical sequential decoding of the same bits yields
// (a packed entry may stop early but never disagrees), literal for literal, 254+length for a length symbol with its
// extra bits, 256 for end-of-block, and consumes exactly the bits of those symbols; the same for distance codes.
// For each header a variant with some codes dropped (an INCOMPLETE code, which the library accepts) is parsed on
// zeroed tables and on tables holding an earlier block's contents: acceptance, table predicates and every lookup
// must agree (modes 4..6, boundedCheckStale). Modes 7..9 repeat modes 1..3 with the code lengths run-length coded
// (symbols 16/17/18, runs crossing from the literal/length into the distance lengths).

import (
	"fmt"
	"math/bits"
	"math/rand"
	"os"
	"sort"
	"testing"
)

type bitsW struct {
	out  []byte
	acc  uint64
	nacc uint
}

func (w *bitsW) put(v uint64, n uint) {
	w.acc |= v << w.nacc
	w.nacc += n
	for w.nacc >= 8 {
		w.out = append(w.out, byte(w.acc))
		w.acc >>= 8
		w.nacc -= 8
	}
}
func (w *bitsW) code(c uint64, n uint) {
	for i := int(n) - 1; i >= 0; i-- {
		w.put((c>>uint(i))&1, 1)
	}
}
func (w *bitsW) bytes() []byte {
	if w.nacc > 0 {
		return append(append([]byte{}, w.out...), byte(w.acc))
	}
	return w.out
}

// randomLengths draws a complete prefix code with n used symbols and maximum length 15.
func randomLengths(rng *rand.Rand, n int, shape int) []uint8 {
	if n == 1 {
		return []uint8{1}
	}
	freq := make([]float64, n)
	for i := range freq {
		switch shape {
		case 0:
			freq[i] = 1 + rng.Float64()
		case 1:
			freq[i] = 1 / (1 + float64(i)*rng.Float64())
		case 2:
			freq[i] = float64(uint64(1) << uint(rng.Intn(20)))
		default:
			freq[i] = rng.ExpFloat64() + 1e-6
		}
	}
	// Huffman by repeated merging (n is small)
	type node struct {
		w    float64
		syms []int
	}
	var h []node
	for i, f := range freq {
		h = append(h, node{f, []int{i}})
	}
	lens := make([]int, n)
	for len(h) > 1 {
		sort.Slice(h, func(i, j int) bool { return h[i].w < h[j].w })
		a, b := h[0], h[1]
		for _, s := range a.syms {
			lens[s]++
		}
		for _, s := range b.syms {
			lens[s]++
		}
		h = append([]node{{a.w + b.w, append(append([]int{}, a.syms...), b.syms...)}}, h[2:]...)
	}
	// limit to 15 and repair the Kraft sum (units of 2^-15)
	total := 0
	for i := range lens {
		if lens[i] > 15 {
			lens[i] = 15
		}
		total += 1 << (15 - lens[i])
	}
	for total > 1<<15 {
		// lengthen the shortest code that can still grow
		best := -1
		for i := range lens {
			if lens[i] < 15 && (best < 0 || lens[i] > lens[best]) {
				best = i
			}
		}
		total -= 1 << (15 - lens[best] - 1)
		lens[best]++
	}
	for total < 1<<15 {
		// shorten a longest code whose gain fits
		done := false
		for l := 15; l >= 2 && !done; l-- {
			for i := range lens {
				if lens[i] == l && total+(1<<(15-l)) <= 1<<15 {
					lens[i]--
					total += 1 << (15 - l)
					done = true
					break
				}
			}
		}
		if !done {
			break
		}
	}
	out := make([]uint8, n)
	for i, l := range lens {
		out[i] = uint8(l)
	}
	return out
}

type canonCode struct {
	first [17]uint32 // first canonical code of each length
	count [17]uint32
	syms  [][]int // symbols of each length, in symbol order
}

func makeCanon(lens []uint8) *canonCode {
	c := &canonCode{syms: make([][]int, 17)}
	for s, l := range lens {
		if l > 0 {
			c.count[l]++
			c.syms[l] = append(c.syms[l], s)
		}
	}
	code := uint32(0)
	for l := 1; l <= 15; l++ {
		code = (code + c.count[l-1]) << 1
		if l == 1 {
			code = 0
		}
		c.first[l] = code
	}
	return c
}

// decode reads one symbol from the LSB-first bit string b; ok is false when no code matches within 15 bits.
func (c *canonCode) decode(b uint64) (sym int, n uint, ok bool) {
	for l := uint(1); l <= 15; l++ {
		v := uint32(bits.Reverse16(uint16(b&(1<<l-1))) >> (16 - l))
		if c.count[l] > 0 && v >= c.first[l] && v < c.first[l]+c.count[l] {
			return c.syms[l][v-c.first[l]], l, true
		}
	}
	return 0, 0, false
}

func (c *canonCode) codeOf(sym int, lens []uint8) (uint64, uint) {
	l := lens[sym]
	for i, s := range c.syms[l] {
		if s == sym {
			return uint64(c.first[l]) + uint64(i), uint(l)
		}
	}
	return 0, 0
}

func boundedLitTabOK(t *largeHuffCodeTable) string {
	for i, e := range t.shortCodeLookup {
		if e&largeFlagBit != 0 {
			ml := e >> 26
			if !(12 <= ml && ml <= 20 && int(e&largeShortSymMask)+(1<<(ml-12)) <= 1264) {
				return fmt.Sprintf("litTabOK violated: shortCodeLookup[%d] = %#x (long-code pointer)", i, e)
			}
		} else if e>>28 != 0 {
			cnt := (e >> 26) & 3
			if !(cnt >= 1 && (e&largeShortSymMask)>>(8*(cnt-1)) <= 1023) {
				return fmt.Sprintf("litTabOK violated: shortCodeLookup[%d] = %#x", i, e)
			}
		}
	}
	for k, e := range t.longCodeLookup {
		if e>>10 > 20 {
			return fmt.Sprintf("litTabOK violated: longCodeLookup[%d] = %#x", k, e)
		}
	}
	return ""
}

// lookupLit is the literal/length lookup of decodeHuffmanLargeLoop.
func lookupLit(t *largeHuffCodeTable, b uint64) (syms []uint32, bitCount uint32, ok bool) {
	nextBits := uint32(b & ((1 << litLenLookupBits) - 1))
	nextSym := t.shortCodeLookup[nextBits]
	var symCount, lits uint32
	if nextSym&largeFlagBit == 0 {
		bitCount = nextSym >> largeShortCodeLenOffset
		if bitCount == 0 {
			return nil, 0, false
		}
		symCount = (nextSym >> largeSymCountOffset) & largeSymCountMask
		lits = nextSym & largeShortSymMask
	} else {
		bitMask := nextSym >> largeShortMaxLenOffset
		bitMask = (1 << bitMask) - 1
		nb := uint32(b) & bitMask
		idx := (nextSym & largeShortSymMask) + (nb >> litLenLookupBits)
		if int(idx) >= len(t.longCodeLookup) {
			return nil, 0, false
		}
		e := uint32(t.longCodeLookup[idx])
		bitCount = e >> largeLongCodeLenOffset
		if bitCount == 0 {
			return nil, 0, false
		}
		symCount = 1
		lits = e & largeLongSymMask
	}
	for symCount > 0 {
		if symCount > 1 {
			syms = append(syms, lits&0xff)
		} else {
			syms = append(syms, lits)
		}
		lits >>= 8
		symCount--
	}
	return syms, bitCount, true
}

// boundedWriteHeader appends a dynamic block header (BFINAL, BTYPE, counts, code length code, code lengths) to w; with
// rle the lengths are run-length coded with the symbols 16, 17 and 18 over the concatenation of both alphabets.
func boundedWriteHeader(w *bitsW, final uint64, litLens, distLens []uint8, rle bool) {
	w.put(final, 1)
	w.put(2, 2)
	w.put(uint64(len(litLens)-257), 5)
	w.put(uint64(len(distLens)-1), 5)
	w.put(15, 4)
	if !rle {
		for _, s := range []int{16, 17, 18, 0, 8, 7, 9, 6, 10, 5, 11, 4, 12, 3, 13, 2, 14, 1, 15} {
			if s < 16 {
				w.put(4, 3)
			} else {
				w.put(0, 3)
			}
		}
		for _, l := range litLens {
			w.code(uint64(l), 4)
		}
		for _, l := range distLens {
			w.code(uint64(l), 4)
		}
	} else {
		// code length code: symbols 0..12 with 4 bits (codes 0..12), 13..18 with 5 bits (codes 26..31): complete
		for _, s := range []int{16, 17, 18, 0, 8, 7, 9, 6, 10, 5, 11, 4, 12, 3, 13, 2, 14, 1, 15} {
			if s < 13 {
				w.put(4, 3)
			} else {
				w.put(5, 3)
			}
		}
		sym := func(s int) {
			if s < 13 {
				w.code(uint64(s), 4)
			} else {
				w.code(uint64(26+s-13), 5)
			}
		}
		all := append(append([]uint8{}, litLens...), distLens...)
		for i := 0; i < len(all); {
			v := all[i]
			r := 1
			for i+r < len(all) && all[i+r] == v {
				r++
			}
			switch {
			case v == 0 && r >= 3:
				k := r
				if k > 138 {
					k = 138
				}
				if k <= 10 {
					sym(17)
					w.put(uint64(k-3), 3)
				} else {
					sym(18)
					w.put(uint64(k-11), 7)
				}
				i += k
			case v != 0 && r >= 4:
				sym(int(v))
				i++
				for rem := r - 1; rem >= 3; {
					k := rem
					if k > 6 {
						k = 6
					}
					sym(16)
					w.put(uint64(k-3), 2)
					rem -= k
					i += k
				}
			default:
				sym(int(v))
				i++
			}
		}
	}
}

// boundedParseHeader writes the dynamic block header for the given code lengths and runs the real parser on it, on
// decoder state whose tables hold zeroes (prev == nil) or the tables an earlier block (prev) left.
func boundedParseHeader(litLens, distLens []uint8, mode int, prev *inflate, mustAccept bool) (*inflate, string) {
	// modes 1..3: code length code = 4 bits for each of the symbols 0..15 (complete), no repeat codes;
	// modes 7..9: the same multi-symbol modes with the lengths run-length coded (symbols 16, 17, 18; runs are taken
	// over the concatenation of both alphabets, so they cross from the literal/length to the distance lengths)
	rle := mode > 6
	mode = (mode-1)%3 + 1
	w := &bitsW{}
	final := uint64(0)
	if mode > 0 {
		final = 1
	}
	boundedWriteHeader(w, final, litLens, distLens, rle)
	hdr := w.bytes()
	pad := 64
	if mode == 0 || mode == 3 {
		pad = 6000 // more than doubleSymThresh: three symbols per entry
	} else if mode == 2 {
		pad = 3000 // two symbols per entry
	} // mode 1: final block with little input: one symbol per entry
	input := append(append([]byte{}, hdr...), make([]byte, pad)...)
	st := &inflate{}
	if prev != nil {
		st.litLenTable = prev.litLenTable
		st.distTable = prev.distTable
		st.dynHdr = prev.dynHdr
	}
	st.input = input
	st.bfinal = uint32(final)
	// consume BFINAL and BTYPE as tryDecodeHeader does
	st.loadBits()
	st.nextBits(3)
	var msg string
	func() {
		defer func() {
			if r := recover(); r != nil {
				msg = fmt.Sprintf("setupDynamicHeader panics: %v", r)
			}
		}()
		if err := st.setupDynamicHeader(); err != nil {
			msg = fmt.Sprintf("setupDynamicHeader rejects a valid header: %v", err)
			if !mustAccept {
				msg = "rejected"
			}
		}
	}()
	return st, msg
}

func boundedCheckHeader(rng *rand.Rand, litLens, distLens []uint8, mode int, patterns int) string {
	st, msg := boundedParseHeader(litLens, distLens, mode, nil, true)
	if msg != "" {
		return msg
	}
	if m := boundedLitTabOK(&st.litLenTable); m != "" {
		return m
	}
	if m := boundedDistTabOK(&st.distTable); m != "" {
		return m
	}
	lc, dc := makeCanon(litLens), makeCanon(distLens)
	for p := 0; p < patterns; p++ {
		b := rng.Uint64()
		if p%4 == 1 {
			// start with the code of a random used symbol
			s := rng.Intn(len(litLens))
			if litLens[s] > 0 {
				c, n := lc.codeOf(s, litLens)
				rev := uint64(bits.Reverse16(uint16(c)) >> (16 - n))
				b = b<<n | rev
			}
		}
		syms, bc, ok := lookupLit(&st.litLenTable, b)
		if !ok {
			return fmt.Sprintf("literal/length lookup of %#x is invalid although the code is complete", b)
		}
		rest, used := b, uint32(0)
		for k, got := range syms {
			s, n, ok2 := lc.decode(rest)
			if !ok2 {
				return fmt.Sprintf("canonical decoding of %#x fails (harness error)", b)
			}
			want := uint32(s)
			bitsUsed := uint32(n)
			if s > 256 {
				ls := s - 257
				ex := uint32(rfcLookupTable.LenExtraBitCount[ls])
				extra := uint32(rest>>n) & (1<<ex - 1)
				length := uint32(rfcLookupTable.LenStart[ls]) + extra
				want = 254 + length
				bitsUsed += ex
			}
			if got != want {
				return fmt.Sprintf("pattern %#x: symbol %d of the table entry is %d, canonical decoding gives %d (mode %d)", b, k, got, want, mode)
			}
			if want >= 256 && k != len(syms)-1 {
				return fmt.Sprintf("pattern %#x: non-literal %d is not the last symbol of its entry", b, want)
			}
			rest >>= bitsUsed
			used += bitsUsed
		}
		if used != bc {
			return fmt.Sprintf("pattern %#x: entry consumes %d bits, its %d symbols have %d bits (mode %d)", b, bc, len(syms), used, mode)
		}
		// distance code
		if s, n, ok2 := dc.decode(b); ok2 {
			sym, dbc, extra, ok3 := boundedDistDecode(&st.distTable, b)
			if !ok3 || sym != uint32(s) || dbc != uint32(n) || extra != uint32(rfcLookupTable.DistExtraBitCount[s]) {
				return fmt.Sprintf("pattern %#x: distance lookup gives (sym %d, %d bits, extra %d, valid %v), canonical decoding (sym %d, %d bits)", b, sym, dbc, extra, ok3, s, n)
			}
		} else if _, _, _, ok3 := boundedDistDecode(&st.distTable, b); ok3 {
			return fmt.Sprintf("pattern %#x matches no distance code but the table decodes it", b)
		}
	}
	return ""
}

// boundedCheckStale: the tables the parser builds are a function of the header alone. The header (in general with
// INCOMPLETE codes, which the library accepts when they are not over-subscribed) is parsed on zeroed decoder state and
// on state whose tables hold an earlier block's contents; both runs must agree on acceptance, satisfy the table
// predicates, and answer every lookup alike (in particular a bit pattern that no code of the block matches must not
// decode through an entry of the earlier block).
func boundedCheckStale(rng *rand.Rand, litLens, distLens []uint8, mode int, patterns int) string {
	a, ma := boundedParseHeader(litLens, distLens, mode, nil, false)
	for _, prev := range boundedEarlierBlocks() {
		b, mb := boundedParseHeader(litLens, distLens, mode, prev, false)
		if ma != mb {
			return fmt.Sprintf("incomplete code: parsing on zeroed tables gives %q, on tables with earlier contents %q", ma, mb)
		}
		if ma != "" {
			if ma == "rejected" {
				return ""
			}
			return ma
		}
		if m := boundedLitTabOK(&b.litLenTable); m != "" {
			return "incomplete code, tables with earlier contents: " + m
		}
		if m := boundedDistTabOK(&b.distTable); m != "" {
			return "incomplete code, tables with earlier contents: " + m
		}
		r2 := rand.New(rand.NewSource(rng.Int63()))
		for p := 0; p < patterns; p++ {
			x := r2.Uint64()
			s1, b1, ok1 := lookupLit(&a.litLenTable, x)
			s2, b2, ok2 := lookupLit(&b.litLenTable, x)
			same := ok1 == ok2 && b1 == b2 && len(s1) == len(s2)
			for k := 0; same && k < len(s1); k++ {
				same = s1[k] == s2[k]
			}
			if !same {
				return fmt.Sprintf("incomplete code: pattern %#x decodes as (%v, %d bits, valid %v) with tables built from zero and as (%v, %d bits, valid %v) with tables built over earlier contents", x, s1, b1, ok1, s2, b2, ok2)
			}
			d1, n1, e1, k1 := boundedDistDecode(&a.distTable, x)
			d2, n2, e2, k2 := boundedDistDecode(&b.distTable, x)
			if k1 != k2 || (k1 && (d1 != d2 || n1 != n2 || e1 != e2)) {
				return fmt.Sprintf("incomplete code: distance pattern %#x decodes as (%d, %d bits, valid %v) with tables built from zero and as (%d, %d bits, valid %v) with tables built over earlier contents", x, d1, n1, k1, d2, n2, k2)
			}
		}
	}
	if m := boundedLitTabOK(&a.litLenTable); m != "" {
		return "incomplete code: " + m
	}
	if m := boundedDistTabOK(&a.distTable); m != "" {
		return "incomplete code: " + m
	}
	return ""
}

var boundedEarlier []*inflate

// boundedEarlierBlocks: decoder states after three fixed dynamic blocks with complete codes that use all 286 and 30
// symbols and long codes (so that most table entries, second-level ones included, are occupied).
func boundedEarlierBlocks() []*inflate {
	if boundedEarlier == nil {
		for k := 0; k < 3; k++ {
			r := rand.New(rand.NewSource(int64(7 + k)))
			lit := randomLengths(r, 286, k)
			dist := randomLengths(r, 30, k+1)
			st, msg := boundedParseHeader(lit, dist, 1+k, nil, true)
			if msg != "" {
				panic("bounded harness: earlier block: " + msg)
			}
			boundedEarlier = append(boundedEarlier, st)
		}
	}
	return boundedEarlier
}

// boundedAlignRuns permutes the lengths within each alphabet (the codes stay complete) so that a run of one non-zero
// length ends the literal/length lengths and continues at the start of the distance lengths: run-length coding
// then emits a repeat (symbol 16) that crosses from one alphabet into the other.
func boundedAlignRuns(lit, dist []uint8) {
	best, bestN := 0, 0
	for l := 1; l <= 15; l++ {
		nl, nd := 0, 0
		for s, x := range lit {
			if int(x) == l && s != 256 {
				nl++
			}
		}
		for _, x := range dist {
			if int(x) == l {
				nd++
			}
		}
		n := nl
		if nd < n {
			n = nd
		}
		if n > bestN {
			best, bestN = l, n
		}
	}
	if bestN == 0 {
		return
	}
	move := func(a []uint8, to int, skip int) {
		if int(a[to]) == best {
			return
		}
		for s, x := range a {
			if int(x) == best && s != skip && s != to && !(to > len(a)-5 && s > to) && !(to < 4 && s < to) {
				a[s], a[to] = a[to], a[s]
				return
			}
		}
	}
	for k := 0; k < 3 && k < bestN; k++ {
		if len(lit)-1-k != 256 {
			move(lit, len(lit)-1-k, 256)
		}
		if k < len(dist) {
			move(dist, k, -1)
		}
	}
}

// boundedDropCodes makes a code incomplete: some used symbols (never end-of-block) lose their code, preferably long ones.
func boundedDropCodes(rng *rand.Rand, lens []uint8, keep int) []uint8 {
	out := append([]uint8{}, lens...)
	var used []int
	for s, l := range out {
		if l > 0 && s != keep {
			used = append(used, s)
		}
	}
	if len(used) < 2 {
		return out
	}
	sort.Slice(used, func(i, j int) bool { return out[used[i]] > out[used[j]] })
	n := 1 + rng.Intn(3)
	for k := 0; k < n && k < len(used)-1; k++ {
		i := rng.Intn(1 + rng.Intn(len(used)))
		out[used[i]] = 0
	}
	return out
}

func TestBoundedHeaderTables(t *testing.T) {
	nh := envInt("VERIF_BOUNDED_HEADERS", 3000)
	np := envInt("VERIF_BOUNDED_PATTERNS", 400)
	rng := rand.New(rand.NewSource(int64(envInt("VERIF_BOUNDED_SEED", 20260102))))
	seen := map[string]bool{}
	explored, nfail := 0, 0
	for i := 0; i < nh; i++ {
		nlit := 257 + rng.Intn(30)
		ndist := 1 + rng.Intn(30)
		used := 2 + rng.Intn(nlit-1)
		if i%7 == 0 {
			used = nlit
		}
		ll := randomLengths(rng, used, i%4)
		litLens := make([]uint8, nlit)
		perm := rng.Perm(nlit)
		// the end-of-block symbol must have a code
		k := 0
		litLens[256] = ll[0]
		k = 1
		for _, s := range perm {
			if s == 256 || k >= len(ll) {
				continue
			}
			litLens[s] = ll[k]
			k++
		}
		dused := 1 + rng.Intn(ndist)
		dl := randomLengths(rng, dused, (i/4)%4)
		distLens := make([]uint8, ndist)
		for j, s := range rng.Perm(ndist)[:dused] {
			distLens[s] = dl[j]
		}
		if i%3 == 1 {
			boundedAlignRuns(litLens, distLens)
		}
		for _, mode := range []int{1, 2, 3, 7, 8, 9} {
			explored++
			if m := boundedCheckHeader(rng, litLens, distLens, mode, np); m != "" {
				nfail++
				cls := boundedClass(m)
				if !seen[cls] {
					seen[cls] = true
					t.Errorf("BOUNDED-FAIL lens=[%s] prefill=%d: %s | dist=[%s]", boundedLensString(litLens), mode, m, boundedLensString(distLens))
				}
			}
		}
		// modes 4..6: the same with some codes dropped (incomplete codes), zeroed against pre-filled tables
		lit2, dist2 := boundedDropCodes(rng, litLens, 256), distLens
		if i%3 == 0 {
			dist2 = boundedDropCodes(rng, distLens, -1)
		}
		for mode := 4; mode <= 6; mode++ {
			explored++
			if m := boundedCheckStale(rng, lit2, dist2, mode-3, np/2); m != "" {
				nfail++
				cls := boundedClass(m)
				if !seen[cls] {
					seen[cls] = true
					t.Errorf("BOUNDED-FAIL lens=[%s] prefill=%d: %s | dist=[%s]", boundedLensString(lit2), mode, m, boundedLensString(dist2))
				}
			}
		}
	}
	t.Logf("BOUNDED explored=%d failing=%d (dynamic headers x multi-symbol modes, %d patterns each)", explored, nfail, np)
	_ = os.Getenv
}

// TestBoundedHeaderTablesReplay re-runs one recorded header:
// VERIF_BOUNDED_KIND=hdr VERIF_BOUNDED_LENS=<literal/length code lengths> VERIF_BOUNDED_DIST=<distance code lengths> VERIF_BOUNDED_PREFILL=<mode 1..3>
func TestBoundedHeaderTablesReplay(t *testing.T) {
	if os.Getenv("VERIF_BOUNDED_KIND") != "hdr" {
		t.Skip("no header to replay")
	}
	parse := func(spec string) []uint8 {
		var out []uint8
		cur, have := 0, false
		for _, r := range spec + "," {
			if r >= '0' && r <= '9' {
				cur = cur*10 + int(r-'0')
				have = true
			} else if have {
				out = append(out, uint8(cur))
				cur, have = 0, false
			}
		}
		return out
	}
	lit, dist := parse(os.Getenv("VERIF_BOUNDED_LENS")), parse(os.Getenv("VERIF_BOUNDED_DIST"))
	mode := envInt("VERIF_BOUNDED_PREFILL", 3)
	if mode > 3 && mode <= 6 {
		if m := boundedCheckStale(rand.New(rand.NewSource(1)), lit, dist, mode-3, 20000); m != "" {
			t.Fatalf("header (mode %d): %s", mode, m)
		}
		return
	}
	if m := boundedCheckHeader(rand.New(rand.NewSource(1)), lit, dist, mode, 20000); m != "" {
		t.Fatalf("header (mode %d): %s", mode, m)
	}
}
