package deflate

// Bounded stand-in (NOT a proof) for the part of the match finders' contract that the deductive check does not
// state: that the histogram handed to the Huffman generator counts exactly the tokens in the pending list (a token
// whose symbol has count zero gets no code and is written as zero bits), for the Go matcher `lz77` and - in the
// default configuration, where `generate` dispatches to them - for the assembly matchers, whose contracts are
// assumed by the deductive checks. Injected into package deflate with `go test -overlay`.
// Explored: VERIF_BOUNDED_LZ77 (default 1500) inputs of up to 3000 bytes of five shapes (incompressible prefix of
// every length 0..47 followed by a long run, so that the token limit falls on every position of the loop that splits
// a match longer than 258; random text over small alphabets; repeated phrases; runs of several bytes; mixtures),
// levels 1 and 2, windows 4 KiB and 32 KiB, token limits 4..64 and 32767, driven the way compressBlock drives the
// matcher (same buffer, `processed` advanced by the bytes consumed, list and histogram emptied when the limit is
// reached, a final call with flush).
// Checked after every call: the tokens appended decode (literals, packed literal pairs, length/distance with the RFC
// base tables) to exactly the bytes consumed, no distance reaches before the buffer or beyond the window, the list
// never exceeds the limit by more than one, and the change of every histogram counter equals the number of appended
// tokens with that symbol.

import (
	"fmt"
	"math/rand"
	"testing"
)

func lzShape(rng *rand.Rand, k int) []byte {
	var b []byte
	switch k % 5 {
	case 0: // incompressible prefix of a chosen length, then one long run (split into 258-byte pieces)
		pre := (k / 5) % 48
		for i := 0; i < pre; i++ {
			b = append(b, byte(rng.Intn(256)))
		}
		c := byte(rng.Intn(256))
		for n := 300 + rng.Intn(2400); n > 0; n-- {
			b = append(b, c)
		}
		for n := rng.Intn(40); n > 0; n-- {
			b = append(b, byte(rng.Intn(256)))
		}
	case 1:
		al := 2 + rng.Intn(6)
		for n := 20 + rng.Intn(2900); n > 0; n-- {
			b = append(b, byte('a'+rng.Intn(al)))
		}
	case 2:
		ph := make([]byte, 3+rng.Intn(300))
		rng.Read(ph)
		for len(b) < 400+rng.Intn(2500) {
			b = append(b, ph[:1+rng.Intn(len(ph))]...)
			if rng.Intn(3) == 0 {
				b = append(b, byte(rng.Intn(256)))
			}
		}
	case 3:
		for len(b) < 200+rng.Intn(2700) {
			c := byte(rng.Intn(4))
			for n := 1 + rng.Intn(700); n > 0; n-- {
				b = append(b, c)
			}
		}
	default:
		for len(b) < 100+rng.Intn(2800) {
			switch rng.Intn(3) {
			case 0:
				for n := rng.Intn(60); n > 0; n-- {
					b = append(b, byte(rng.Intn(256)))
				}
			case 1:
				if len(b) > 8 {
					d := 1 + rng.Intn(len(b)-1)
					for n := 3 + rng.Intn(600); n > 0; n-- {
						b = append(b, b[len(b)-d])
					}
				}
			default:
				c := byte(rng.Intn(256))
				for n := rng.Intn(900); n > 0; n-- {
					b = append(b, c)
				}
			}
		}
	}
	if len(b) > 3000 {
		b = b[:3000]
	}
	return b
}

// lzCheckCall: tokens[from:] must decode to input[idx:nIdx] and the histogram must have moved by exactly those tokens
func lzCheckCall(input []byte, idx, nIdx int, toks []token, from int, window int, before, after *histogram) string {
	var want histogram
	pos := idx
	for k := from; k < len(toks); k++ {
		t := toks[k]
		litLen, dist, extra := t.Extract()
		switch {
		case dist == InvalidDist:
			if litLen > 255 || pos >= len(input) || input[pos] != byte(litLen) {
				return fmt.Sprintf("token %d: literal %d does not match the input at %d", k, litLen, pos)
			}
			want.literalCodes[litLen]++
			pos++
		case dist > InvalidDist:
			if litLen > 255 || dist-31 > 255 || pos+1 >= len(input) || input[pos] != byte(litLen) || input[pos+1] != byte(dist-31) {
				return fmt.Sprintf("token %d: packed literals %d,%d do not match the input at %d", k, litLen, dist-31, pos)
			}
			want.literalCodes[litLen]++
			want.literalCodes[dist-31]++
			pos += 2
		default:
			length := int(litLen) - 254
			d := int(disttable[dist] + extra)
			if length < 3 || length > 258 || d < 1 || d > window || d > pos || pos+length > len(input) {
				return fmt.Sprintf("token %d: match length %d distance %d at %d is out of range (window %d, input %d)", k, length, d, pos, window, len(input))
			}
			for j := 0; j < length; j++ {
				if input[pos+j] != input[pos+j-d] {
					return fmt.Sprintf("token %d: match length %d distance %d at %d copies a wrong byte", k, length, d, pos)
				}
			}
			want.literalCodes[litLen]++
			want.distanceCodes[dist]++
			pos += length
		}
	}
	if pos != nIdx {
		return fmt.Sprintf("tokens cover the input up to %d, matcher reports %d consumed", pos, nIdx)
	}
	for s := range want.literalCodes {
		if after.literalCodes[s]-before.literalCodes[s] != want.literalCodes[s] {
			return fmt.Sprintf("histogram: literal/length slot %d counted %d times for %d tokens", s, after.literalCodes[s]-before.literalCodes[s], want.literalCodes[s])
		}
	}
	for s := range want.distanceCodes {
		if after.distanceCodes[s]-before.distanceCodes[s] != want.distanceCodes[s] {
			return fmt.Sprintf("histogram: distance symbol %d counted %d times for %d tokens", s, after.distanceCodes[s]-before.distanceCodes[s], want.distanceCodes[s])
		}
	}
	return ""
}

func TestBoundedLZ77(t *testing.T) {
	n := wEnvInt("VERIF_BOUNDED_LZ77", 1500)
	rng := rand.New(rand.NewSource(int64(wEnvInt("VERIF_BOUNDED_SEED", 20260102))))
	explored, nfail := 0, 0
	seen := map[string]bool{}
	for k := 0; k < n; k++ {
		shape := lzShape(rng, k)
		input := make([]byte, len(shape), len(shape)+320) // the real buffer has spare capacity behind the data as well
		copy(input, shape)
		for _, level := range []int{1, 2} {
			for _, window := range []int{4096, 32768} {
				limit := 4 + (k/5+level+window/4096)%61
				if k%7 == 6 {
					limit = maxTokenSize
				}
				m := buildLZ77(level, window)
				hist := m.histogram()
				toks := make([]token, 0, tokensCap)
				idx, processed, calls := 0, 0, 0
				msg := ""
				for idx < len(input) && msg == "" {
					flush := len(toks) < limit && calls > 0 && calls%2 == 1 // alternate: without flush first, then with
					if len(input) <= 8 {
						flush = true
					}
					before := *hist
					from := len(toks)
					var nIdx int
					nIdx, toks = m.generate(flush, input, processed, idx, toks, limit)
					calls++
					explored++
					if len(toks) > limit+1 {
						msg = fmt.Sprintf("list holds %d tokens, limit %d", len(toks), limit)
						break
					}
					msg = lzCheckCall(input, idx, nIdx, toks, from, window, &before, hist)
					processed += nIdx - idx
					if nIdx == idx && from == len(toks) && flush {
						msg = "no progress with flush"
					}
					idx = nIdx
					if len(toks) >= limit { // block boundary: encodeBlock empties the list and the histogram
						toks = toks[:0]
						hist.reset()
					}
					if calls > 20000 {
						msg = "matcher does not finish the input"
					}
				}
				if msg != "" {
					nfail++
					cls := fmt.Sprintf("lz77 %d", level) + msg[:10]
					if !seen[cls] {
						seen[cls] = true
						t.Errorf("BOUNDED-FAIL lens=[%d,%d,%d,%d] prefill=%d: lz77 matcher level %d window %d token limit %d input shape %d: %s", k, level, window, limit, k%5, level, window, limit, k%5, msg)
					}
				}
			}
		}
	}
	t.Logf("BOUNDED explored=%d failing=%d (match finder calls: tokens decode to the bytes consumed, histogram counts the tokens)", explored, nfail)
}
