package flate

// Bounded stand-in (NOT a proof) for the distance-table builder genForDists and the canonical code assignment
// setCodes, which the contract verifier keeps as assumed contracts (DESIGN.md: the argument that 80 long-table
// entries suffice is combinatorial). The file is injected into package flate with `go test -overlay`; nothing is
// written to the repository.
//
// What is explored (the bound):
//   * every vector (n1..n15) of code-length counts of a COMPLETE prefix code with at most 30 symbols (4 309 772
//     vectors), symbols assigned to lengths in ascending and in descending order;
//   * every vector of an INCOMPLETE code (Kraft sum < 1) with at most VERIF_BOUNDED_INCOMPLETE_SYMS symbols
//     (default 5), and VERIF_BOUNDED_RANDOM random vectors (default 200000) of up to 30 symbols with random
//     symbol placement, including unused symbols in between;
//   * each against an all-zero table and against a table left behind by a previous block.
// What is checked for each: setCodes accepts it; genForDists does not panic; the table satisfies the Go
// transcription of the contract predicate distTabOK; every symbol's canonical code, extended by four different
// continuations, decodes (by the same two-level lookup the decode loop performs) to that symbol with that code
// length and with the extra-bit count of RFC 1951 in the entry's extra field (the assembly decoder reads it);
// sampled bit patterns that match no code decode to "invalid".

import (
	"fmt"
	"math/bits"
	"math/rand"
	"os"
	"runtime"
	"strconv"
	"strings"
	"sync"
	"sync/atomic"
	"testing"
)

func boundedDistEntOK(e uint16) bool {
	if e&smallFlagBit != 0 {
		ml := (e - 1024) >> 11
		return 10 <= ml && ml <= 15 && int(e&511)+(1<<(ml-10)) <= 80
	}
	return e>>11 <= 15 && (e>>11 != 0 || e <= 15)
}

func boundedDistTabOK(t *smallHuffCodeTable) string {
	for j, e := range t.ShortCodeLookup {
		if !boundedDistEntOK(e) {
			return fmt.Sprintf("distTabOK violated: ShortCodeLookup[%d] = %#x", j, e)
		}
	}
	for k, e := range t.LongCodeLookup {
		if !(e>>10 <= 15 && (e>>10 != 0 || e <= 15)) {
			return fmt.Sprintf("distTabOK violated: LongCodeLookup[%d] = %#x", k, e)
		}
	}
	return ""
}

// boundedDistDecode is the lookup of decodeHuffmanLargeLoop for a distance code; ok is false for an invalid code.
func boundedDistDecode(t *smallHuffCodeTable, b uint64) (sym uint32, bitCount uint32, extra uint32, ok bool) {
	nextBits := uint16(b & ((1 << distLookupBits) - 1))
	nextSym := uint32(t.ShortCodeLookup[nextBits])
	if nextSym&smallFlagBit == 0 {
		bitCount = nextSym >> smallShortCodeLenOffset
		if bitCount == 0 {
			return 0, 0, 0, false
		}
		return nextSym & distSymMask, bitCount, (nextSym >> distSymExtraOffset) & distSymExtraMask, true
	}
	bitMask := (uint32(nextSym) - smallFlagBit) >> smallShortCodeLenOffset
	bitMask = (1 << bitMask) - 1
	nextBits = uint16(b & uint64(bitMask))
	idx := int(uint16(nextSym&smallShortSymMask) + (nextBits >> distLookupBits))
	if idx >= len(t.LongCodeLookup) {
		return 0, 0, 0, false
	}
	nextSym = uint32(t.LongCodeLookup[idx])
	bitCount = nextSym >> smallLongCodeLenOffset
	if bitCount == 0 {
		return 0, 0, 0, false
	}
	return nextSym & distSymMask, bitCount, (nextSym >> distSymExtraOffset) & distSymExtraMask, true
}

// boundedCheckDist runs setCodes and genForDists on the code lengths lens (one per distance symbol) starting from
// the table prefill and returns a description of the first discrepancy, or "".
func boundedCheckDist(lens []uint8, prefill *smallHuffCodeTable, rng *rand.Rand) (msg string) {
	var codes [distLen]huffCode
	var count [maxHuffTreeDepth + 1]uint16
	for i, l := range lens {
		codes[i].Set(0, uint32(l))
		count[l]++
	}
	for i := len(lens); i < distLen; i++ {
		count[0]++
	}
	if setCodes(codes[:], count[:]) != 0 {
		return "setCodes rejects a code that is not over-subscribed"
	}
	canon := codes
	table := *prefill
	defer func() {
		if r := recover(); r != nil {
			msg = fmt.Sprintf("genForDists panics: %v", r)
		}
	}()
	table.genForDists(codes[:], count[:], distLen)
	if m := boundedDistTabOK(&table); m != "" {
		return m
	}
	used := 0
	for s := 0; s < distLen; s++ {
		l := canon[s].Length()
		if l == 0 {
			continue
		}
		used++
		c := uint64(canon[s].Code())
		for k := 0; k < 4; k++ {
			var ext uint64
			switch k {
			case 1:
				ext = 1<<20 - 1
			case 2, 3:
				ext = uint64(rng.Uint32())
			}
			b := c | ext<<l
			sym, bc, extra, ok := boundedDistDecode(&table, b)
			if !ok || sym != uint32(s) || bc != l {
				return fmt.Sprintf("symbol %d (length %d, code %#x) followed by %#x decodes to (sym %d, %d bits, valid %v)", s, l, c, ext, sym, bc, ok)
			}
			if extra != uint32(rfcLookupTable.DistExtraBitCount[s]) {
				return fmt.Sprintf("table entry of symbol %d carries %d extra bits, RFC 1951 says %d", s, extra, rfcLookupTable.DistExtraBitCount[s])
			}
		}
	}
	if used == 0 {
		return ""
	}
	// patterns that match no code must be invalid
	for k := 0; k < 6; k++ {
		b := uint64(rng.Uint32()) & (1<<15 - 1)
		match := false
		for s := 0; s < distLen && !match; s++ {
			l := canon[s].Length()
			if l != 0 && b&(1<<l-1) == uint64(canon[s].Code()) {
				match = true
			}
		}
		if match {
			continue
		}
		if sym, bc, _, ok := boundedDistDecode(&table, b); ok {
			return fmt.Sprintf("bit pattern %#x matches no code but decodes to symbol %d with %d bits", b, sym, bc)
		}
	}
	return ""
}

func boundedLensString(lens []uint8) string {
	var sb strings.Builder
	for i, l := range lens {
		if i > 0 {
			sb.WriteByte(',')
		}
		sb.WriteString(strconv.Itoa(int(l)))
	}
	return sb.String()
}

func boundedPrefills() []*smallHuffCodeTable {
	zero := &smallHuffCodeTable{}
	prev := &smallHuffCodeTable{}
	// a previous block with long codes: lengths 1,2,...,14,15,15 is complete
	lens := []uint8{1, 2, 3, 4, 5, 6, 7, 8, 9, 10, 11, 12, 13, 14, 15, 15}
	var codes [distLen]huffCode
	var count [maxHuffTreeDepth + 1]uint16
	for i, l := range lens {
		codes[i].Set(0, uint32(l))
		count[l]++
	}
	func() {
		defer func() { recover() }()
		if setCodes(codes[:], count[:]) == 0 {
			prev.genForDists(codes[:], count[:], distLen)
		}
	}()
	return []*smallHuffCodeTable{zero, prev}
}

// boundedClass abstracts a failure message from its numbers: one report per kind of failure.
func boundedClass(m string) string {
	var sb strings.Builder
	prevDigit := false
	for _, r := range m {
		if (r >= '0' && r <= '9') || (prevDigit && (r == 'x' || (r >= 'a' && r <= 'f'))) {
			if !prevDigit {
				sb.WriteByte('N')
			}
			prevDigit = true
			continue
		}
		prevDigit = false
		sb.WriteRune(r)
	}
	return sb.String()
}

type boundedFailure struct {
	lens    string
	prefill int
	msg     string
}

func envInt(name string, def int) int {
	if v := os.Getenv(name); v != "" {
		if n, err := strconv.Atoi(v); err == nil {
			return n
		}
	}
	return def
}

// TestBoundedDistTableReplay re-runs one recorded input: VERIF_BOUNDED_LENS="l0,l1,..." VERIF_BOUNDED_PREFILL=0|1
func TestBoundedDistTableReplay(t *testing.T) {
	spec := os.Getenv("VERIF_BOUNDED_LENS")
	if spec == "" {
		t.Skip("no VERIF_BOUNDED_LENS")
	}
	var lens []uint8
	for _, f := range strings.Split(spec, ",") {
		n, _ := strconv.Atoi(strings.TrimSpace(f))
		lens = append(lens, uint8(n))
	}
	pf := boundedPrefills()[envInt("VERIF_BOUNDED_PREFILL", 0)]
	if m := boundedCheckDist(lens, pf, rand.New(rand.NewSource(1))); m != "" {
		t.Fatalf("distance code lengths [%s]: %s", spec, m)
	}
}

func TestBoundedDistTable(t *testing.T) {
	maxSyms := envInt("VERIF_BOUNDED_COMPLETE_SYMS", 30)
	incSyms := envInt("VERIF_BOUNDED_INCOMPLETE_SYMS", 5)
	nrand := envInt("VERIF_BOUNDED_RANDOM", 200000)
	prefills := boundedPrefills()
	work := make(chan []uint8, 4096)
	var fails []boundedFailure
	var mu sync.Mutex
	var explored, rejected int64
	seenClass := map[string]bool{}
	nfail := 0
	var wg sync.WaitGroup
	for w := 0; w < runtime.GOMAXPROCS(0); w++ {
		wg.Add(1)
		go func(seed int64) {
			defer wg.Done()
			rng := rand.New(rand.NewSource(seed))
			for lens := range work {
				for pi, pf := range prefills {
					m := boundedCheckDist(lens, pf, rng)
					atomic.AddInt64(&explored, 1)
					if m != "" {
						cls := boundedClass(m)
						mu.Lock()
						if !seenClass[cls] && len(fails) < 50 {
							seenClass[cls] = true
							fails = append(fails, boundedFailure{boundedLensString(lens), pi, m})
						}
						nfail++
						mu.Unlock()
					}
				}
			}
		}(int64(w) + 1)
	}
	emit := func(cnt *[16]int) {
		// ascending: shortest codes on the lowest symbols; descending: the reverse
		var asc []uint8
		for l := 1; l <= 15; l++ {
			for k := 0; k < cnt[l]; k++ {
				asc = append(asc, uint8(l))
			}
		}
		if len(asc) == 0 {
			return
		}
		desc := make([]uint8, len(asc))
		for i, l := range asc {
			desc[len(asc)-1-i] = l
		}
		work <- asc
		work <- desc
	}
	var cnt [16]int
	// complete codes
	var recC func(l int, rem int, n int)
	recC = func(l int, rem int, n int) {
		if l == 16 {
			if rem == 0 {
				emit(&cnt)
			}
			return
		}
		unit := 1 << (15 - l)
		if rem > n*unit {
			return // the remaining symbols cannot fill the remaining code space even at this (shortest) length
		}
		for c := 0; c <= n && c*unit <= rem; c++ {
			cnt[l] = c
			recC(l+1, rem-c*unit, n-c)
		}
		cnt[l] = 0
	}
	recC(1, 1<<15, maxSyms)
	// incomplete codes with few symbols
	var recI func(l int, rem int, n int)
	recI = func(l int, rem int, n int) {
		if l == 16 {
			if rem != 0 {
				emit(&cnt)
			}
			return
		}
		unit := 1 << (15 - l)
		for c := 0; c <= n && c*unit <= rem; c++ {
			cnt[l] = c
			recI(l+1, rem-c*unit, n-c)
		}
		cnt[l] = 0
	}
	recI(1, 1<<15, incSyms)
	// random vectors with random placement and unused symbols
	rng := rand.New(rand.NewSource(int64(envInt("VERIF_BOUNDED_SEED", 20260102))))
	for i := 0; i < nrand; i++ {
		n := 1 + rng.Intn(30)
		lens := make([]uint8, n)
		rem := 1 << 15
		for j := range lens {
			if rng.Intn(5) == 0 {
				continue
			}
			l := 1 + rng.Intn(15)
			if rng.Intn(3) == 0 {
				l = 9 + rng.Intn(7)
			}
			if 1<<(15-l) <= rem {
				lens[j] = uint8(l)
				rem -= 1 << (15 - l)
			}
		}
		work <- lens
	}
	close(work)
	wg.Wait()
	_ = bits.Len
	t.Logf("BOUNDED explored=%d failing=%d rejected=%d complete_syms<=%d incomplete_syms<=%d random=%d", explored, nfail, rejected, maxSyms, incSyms, nrand)
	for _, f := range fails {
		t.Errorf("BOUNDED-FAIL lens=[%s] prefill=%d: %s", f.lens, f.prefill, f.msg)
	}
}
