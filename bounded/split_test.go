package flate

// Bounded stand-in (NOT a proof) for C04 over dynamic blocks: the output of the Reader does not depend on how the
// compressed bytes arrive. Random valid dynamic blocks (complete codes; header plain or run-length coded; data:
// literals, matches with random length symbols - those with extra bits included - and distances, end-of-block) are
// decoded by the standard library as the reference and by the fastgo Reader with the stream delivered (a) whole,
// (b) in two pieces cut at EVERY byte position, (c) one byte per Read. Every delivery must give the reference output
// and io.EOF. A cut inside the block header makes the parser abandon the header attempt and parse it again from
// its start when more input arrives; a cut inside a symbol makes the decode loop roll back.

import (
	"bytes"
	stdflate "compress/flate"
	"fmt"
	"io"
	"math/bits"
	"math/rand"
	"testing"
)

type boundedPieces struct {
	data []byte
	cuts []int // ascending end offsets of the pieces; the rest follows in one piece
	pos  int
}

func (s *boundedPieces) Read(p []byte) (int, error) {
	if s.pos >= len(s.data) {
		return 0, io.EOF
	}
	end := len(s.data)
	for _, c := range s.cuts {
		if c > s.pos {
			end = c
			break
		}
	}
	n := copy(p, s.data[s.pos:end])
	s.pos += n
	return n, nil
}

type boundedOneByte struct {
	data []byte
	pos  int
}

func (s *boundedOneByte) Read(p []byte) (int, error) {
	if s.pos >= len(s.data) {
		return 0, io.EOF
	}
	if len(p) == 0 {
		return 0, nil
	}
	p[0] = s.data[s.pos]
	s.pos++
	return 1, nil
}

// boundedBlock writes one final dynamic block with random data for the given complete codes.
func boundedBlock(rng *rand.Rand, litLens, distLens []uint8, rle bool) []byte {
	w := &bitsW{}
	boundedWriteHeader(w, 1, litLens, distLens, rle)
	lc, dc := makeCanon(litLens), makeCanon(distLens)
	emit := func(c *canonCode, lens []uint8, s int) {
		code, n := c.codeOf(s, lens)
		w.code(code, n)
	}
	var lits, lensyms, dsyms []int
	for s, l := range litLens {
		if l > 0 && s < 256 {
			lits = append(lits, s)
		} else if l > 0 && s > 256 && s <= 285 {
			lensyms = append(lensyms, s)
		}
	}
	for s, l := range distLens {
		if l > 0 && s < 30 {
			dsyms = append(dsyms, s)
		}
	}
	produced := 0
	n := 1 + rng.Intn(40)
	for k := 0; k < n; k++ {
		if len(lits) > 0 && (produced == 0 || len(lensyms) == 0 || len(dsyms) == 0 || rng.Intn(3) > 0) {
			emit(lc, litLens, lits[rng.Intn(len(lits))])
			produced++
			continue
		}
		if produced == 0 || len(lensyms) == 0 || len(dsyms) == 0 {
			continue
		}
		// a match: the distance must not reach before the data produced
		var ok []int
		for _, d := range dsyms {
			if int(rfcLookupTable.DistStart[d]) <= produced {
				ok = append(ok, d)
			}
		}
		if len(ok) == 0 {
			continue
		}
		ls := lensyms[rng.Intn(len(lensyms))]
		emit(lc, litLens, ls)
		lx := uint(rfcLookupTable.LenExtraBitCount[ls-257])
		lextra := uint64(rng.Intn(1 << lx))
		w.put(lextra, lx)
		d := ok[rng.Intn(len(ok))]
		emit(dc, distLens, d)
		dx := uint(rfcLookupTable.DistExtraBitCount[d])
		room := produced - int(rfcLookupTable.DistStart[d])
		dextra := 0
		if dx > 0 {
			dextra = rng.Intn(1 << dx)
			if dextra > room {
				dextra = room
			}
		}
		w.put(uint64(dextra), dx)
		produced += int(rfcLookupTable.LenStart[ls-257]) + int(lextra)
	}
	emit(lc, litLens, 256)
	_ = bits.Len
	return w.bytes()
}

func TestBoundedSplitDelivery(t *testing.T) {
	nb := envInt("VERIF_BOUNDED_SPLIT_BLOCKS", 150)
	rng := rand.New(rand.NewSource(int64(envInt("VERIF_BOUNDED_SEED", 20260102)) + 7))
	explored, nfail := 0, 0
	seen := map[string]bool{}
	var rd io.ReadCloser
	for i := 0; i < nb; i++ {
		nlit := 257 + rng.Intn(30)
		ndist := 1 + rng.Intn(30)
		used := 2 + rng.Intn(nlit-1)
		if i%5 == 0 {
			used = nlit
		}
		ll := randomLengths(rng, used, i%4)
		litLens := make([]uint8, nlit)
		litLens[256] = ll[0]
		k := 1
		// prefer length symbols (also those with extra bits) among the used ones
		perm := rng.Perm(nlit)
		if i%2 == 0 {
			var hi, lo []int
			for _, s := range perm {
				if s > 256 {
					hi = append(hi, s)
				} else {
					lo = append(lo, s)
				}
			}
			perm = append(hi, lo...)
		}
		for _, s := range perm {
			if s == 256 || k >= len(ll) {
				continue
			}
			litLens[s] = ll[k]
			k++
		}
		dused := 1 + rng.Intn(ndist)
		dl := randomLengths(rng, dused, (i/4)%4)
		distLens := make([]uint8, ndist)
		dperm := rng.Perm(ndist)
		// small distances first so that matches are possible early
		for a := 0; a < len(dperm); a++ {
			for b := a + 1; b < len(dperm); b++ {
				if dperm[b] < dperm[a] && rng.Intn(4) > 0 {
					dperm[a], dperm[b] = dperm[b], dperm[a]
				}
			}
		}
		for j, s := range dperm[:dused] {
			distLens[s] = dl[j]
		}
		stream := boundedBlock(rng, litLens, distLens, i%2 == 1)
		want, err := io.ReadAll(stdflate.NewReader(bytes.NewReader(stream)))
		if err != nil {
			t.Fatalf("harness error: the standard library rejects the generated block: %v (lens=[%s] dist=[%s])", err, boundedLensString(litLens), boundedLensString(distLens))
		}
		check := func(kind string, cut int, src io.Reader) {
			explored++
			if rd == nil || explored%64 == 0 {
				rd = NewReader(src)
			} else if err := rd.(Resetter).Reset(src, nil); err != nil {
				t.Fatalf("Reset: %v", err)
			}
			var got []byte
			var gerr error
			func() {
				defer func() {
					if r := recover(); r != nil {
						gerr = fmt.Errorf("panic: %v", r)
						rd = nil
					}
				}()
				got, gerr = io.ReadAll(rd)
			}()
			if gerr != nil || !bytes.Equal(got, want) {
				nfail++
				m := fmt.Sprintf("split delivery (%s): the Reader returns %d bytes and %v, the whole stream decodes to %d bytes and EOF", kind, len(got), gerr, len(want))
				cls := boundedClass(m)
				if !seen[cls] {
					seen[cls] = true
					t.Errorf("BOUNDED-FAIL lens=[%s] prefill=%d: %s | dist=[%s]", boundedLensString(litLens), cut, m, boundedLensString(distLens))
				}
			}
		}
		check("whole", 0, &boundedPieces{data: stream})
		for c := 1; c < len(stream); c++ {
			check("two pieces", c, &boundedPieces{data: stream, cuts: []int{c}})
		}
		for c := 1; c+1 < len(stream) && c < 40; c += 3 {
			check("three pieces", c, &boundedPieces{data: stream, cuts: []int{c, c + 1 + rng.Intn(len(stream)-c-1)}})
		}
		check("one byte per read", 0, &boundedOneByte{data: stream})
	}
	t.Logf("BOUNDED explored=%d failing=%d (dynamic blocks x deliveries: whole, every two-piece cut, three pieces, byte by byte)", explored, nfail)
}

// TestBoundedTruncatedDelivery: the truncated half of C04. Streams of literal-rich text compressed by the standard
// library (one dynamic block, made the final block by setting BFINAL in its header, which keeps the stream valid),
// cut at every byte of a window behind the point where more than 2048 and more than 4096 input bytes are in hand (so
// that the whole delivery builds pair and triple tables), are delivered whole and one byte per Read: both must end in
// io.ErrUnexpectedEOF, both outputs must be prefixes of the text (nothing invented), and - the part that is a
// recorded finding on the unchanged tree, see known_findings.txt - they must have the same length.
func TestBoundedTruncatedDelivery(t *testing.T) {
	nb := envInt("VERIF_BOUNDED_TRUNC_STREAMS", 3)
	rng := rand.New(rand.NewSource(int64(envInt("VERIF_BOUNDED_SEED", 20260102)) + 11))
	words := []string{"window", "header", "symbol", "literal", "block", "the", "of", "and", "stream", "buffer", "Huffman", "distance", "length", "carry", "refill", "input", "output"}
	explored, nfail := 0, 0
	seen := map[string]bool{}
	fail := func(cut int, m string) {
		nfail++
		cls := boundedClass(m)
		if len(cls) > 70 {
			cls = cls[:70]
		}
		if !seen[cls] {
			seen[cls] = true
			t.Errorf("BOUNDED-FAIL lens=[] prefill=%d: %s", cut, m)
		}
	}
	for i := 0; i < nb; i++ {
		var txt bytes.Buffer
		size := 12000 + 9000*i
		for txt.Len() < size {
			txt.WriteString(words[rng.Intn(len(words))])
			switch rng.Intn(8) {
			case 0:
				txt.WriteString(".\n")
			case 1:
				txt.WriteString(", ")
			case 2:
				txt.WriteByte(byte('0' + rng.Intn(10)))
				txt.WriteByte(' ')
			default:
				txt.WriteByte(' ')
			}
		}
		var cb bytes.Buffer
		zw, _ := stdflate.NewWriter(&cb, 6)
		zw.Write(txt.Bytes())
		zw.Close()
		comp := cb.Bytes()
		if comp[0]&6 != 4 {
			t.Fatalf("harness error: the standard library did not write a dynamic block first")
		}
		comp[0] |= 1
		full, err := io.ReadAll(NewReader(bytes.NewReader(comp)))
		if err != nil || len(full) > txt.Len() || !bytes.Equal(full, txt.Bytes()[:len(full)]) {
			fail(0, fmt.Sprintf("split delivery of a final dynamic block made final by BFINAL: the complete stream decodes to %d bytes and %v", len(full), err))
			continue
		}
		for cut := 60; cut < len(comp)-6; cut++ {
			if cut > 400 && cut < len(comp)-700 && cut%7 != 0 {
				continue
			}
			s := comp[:cut]
			explored += 2
			a, ea := io.ReadAll(NewReader(bytes.NewReader(s)))
			b, eb := io.ReadAll(NewReader(&boundedOneByte{data: s}))
			switch {
			case ea != io.ErrUnexpectedEOF || eb != io.ErrUnexpectedEOF:
				fail(cut, fmt.Sprintf("split delivery of a truncated final dynamic block: errors %v (whole) and %v (byte by byte), want unexpected EOF twice", ea, eb))
			case len(a) > len(full) || len(b) > len(full) || !bytes.Equal(a, full[:len(a)]) || !bytes.Equal(b, full[:len(b)]):
				fail(cut, fmt.Sprintf("split delivery of a truncated final dynamic block: output is not a prefix of the data (whole %d bytes, byte by byte %d)", len(a), len(b)))
			case len(a) != len(b):
				fail(cut, fmt.Sprintf("split delivery of a truncated final dynamic block: bytes before the error depend on the delivery (whole %d, byte by byte %d, stream of %d bytes cut at %d)", len(a), len(b), len(comp), cut))
			}
		}
	}
	t.Logf("BOUNDED explored=%d failing=%d (truncated final dynamic blocks x deliveries: whole, byte by byte)", explored, nfail)
}
