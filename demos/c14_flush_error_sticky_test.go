package flate

// Demonstration for C14: a destination error returned by Flush (or Close) must stick.
// go test -tags noasmtest -run TestDemoC14 (in-package, injected with -overlay)

import (
	"errors"
	"testing"
)

type failAfter struct {
	n     int
	calls int
}

var errDst = errors.New("dst failed")

func (f *failAfter) Write(p []byte) (int, error) {
	f.calls++
	if f.calls > f.n {
		return 0, errDst
	}
	return len(p), nil
}

func TestDemoC14FlushErrorSticks(t *testing.T) {
	for _, level := range []int{1, 2, -2} {
		dst := &failAfter{n: 0}
		w, _ := NewWriter(dst, level)
		w.Write([]byte("hello hello hello hello"))
		if err := w.Flush(); err != errDst {
			t.Fatalf("level %d: Flush = %v, want dst error", level, err)
		}
		before := dst.calls
		if _, err := w.Write(make([]byte, 200000)); err != errDst {
			t.Errorf("level %d: Write after failed Flush = %v, want the same dst error", level, err)
		}
		if err := w.Close(); err != errDst {
			t.Errorf("level %d: Close after failed Flush = %v, want the same dst error", level, err)
		}
		if dst.calls != before {
			t.Errorf("level %d: destination touched again after a failed Flush (%d more calls)", level, dst.calls-before)
		}
	}
}
