package flate

// Demonstration for a C03 defect in readLitDistLens: a repeat (code length symbol 16) that starts just before the
// end of the literal/length lengths and runs across the jump to the distance lengths passes the "curr+i > end"
// test (made before the jump) and then writes one element past the end of the length array: index out of range.
// The standard library reports corrupt input for the same bytes.
// Place in compress/flate and run:  go test -run TestDemoHeaderRepeatPastEnd ./compress/flate

import (
	"bytes"
	stdflate "compress/flate"
	"io"
	"testing"
)

type hdrBits struct {
	out  []byte
	acc  uint64
	nacc uint
}

func (w *hdrBits) bits(v uint64, n uint) {
	w.acc |= v << w.nacc
	w.nacc += n
	for w.nacc >= 8 {
		w.out = append(w.out, byte(w.acc))
		w.acc >>= 8
		w.nacc -= 8
	}
}

func (w *hdrBits) code(c uint64, n uint) {
	for i := int(n) - 1; i >= 0; i-- {
		w.bits((c>>uint(i))&1, 1)
	}
}

func demoHeaderRepeatPastEnd() []byte {
	w := &hdrBits{}
	w.bits(1, 1)  // BFINAL
	w.bits(2, 2)  // dynamic Huffman
	w.bits(0, 5)  // HLIT: 257 literal/length codes
	w.bits(0, 5)  // HDIST: 1 distance code
	w.bits(14, 4) // HCLEN: 18 code length code lengths
	// order 16 17 18 0 8 7 9 6 10 5 11 4 12 3 13 2 14 1: lengths 16->2, 18->1, 1->2, others 0
	for _, l := range []uint64{2, 0, 1, 0, 0, 0, 0, 0, 0, 0, 0, 0, 0, 0, 0, 0, 0, 2} {
		w.bits(l, 3)
	}
	// canonical code length codes: 18 -> 0 (1 bit), 1 -> 10, 16 -> 11
	w.code(0, 1)
	w.bits(127, 7) // 138 zeros
	w.code(0, 1)
	w.bits(106, 7) // 117 zeros: 255 lengths so far
	w.code(2, 2)   // literal 255 has length 1
	w.code(3, 2)   // repeat previous length ...
	w.bits(3, 2)   // ... 6 times: positions 256, then (after the jump) distance code 0 and one more
	for i := 0; i < 16; i++ {
		w.bits(0, 8)
	}
	return w.out
}

func TestDemoHeaderRepeatPastEnd(t *testing.T) {
	stream := demoHeaderRepeatPastEnd()
	_, stdErr := io.ReadAll(stdflate.NewReader(bytes.NewReader(stream)))
	if stdErr == nil {
		t.Fatalf("the standard library accepts the stream; the demonstration is wrong")
	}
	defer func() {
		if r := recover(); r != nil {
			t.Fatalf("fastgo Reader panicked on a malformed header (standard library: %v): %v", stdErr, r)
		}
	}()
	_, err := io.ReadAll(NewReader(bytes.NewReader(stream)))
	if err == nil {
		t.Fatalf("malformed header accepted")
	}
	if _, ok := err.(CorruptInputError); !ok && err != io.ErrUnexpectedEOF {
		t.Fatalf("unexpected error %v (standard library: %v)", err, stdErr)
	}
}
