package flate

// Demonstration for a C03/C13 defect in encodeLongCodes (the second level of the literal/length decoding table, for
// codes longer than 12 bits): a group's sub-table is filled only at the patterns of the codes the current block
// assigns. A block whose literal/length code is incomplete (accepted by this library, see the recorded finding on
// setCodes) leaves entries untouched, and they keep what an earlier block - or an earlier stream, because Reset does
// not clear the tables - stored there. The same stream is then decoded differently by a new Reader (invalid code at
// the unassigned pattern) and by a used Reader (the earlier stream's symbol, here a match of length 4: data that
// the stream does not encode).
// Needs hdrBits (c03_header_repeat_past_end_test.go), demoCanon and demoDynHeader (c03_dist_table_builder_test.go).

import (
	"bytes"
	"io"
	"testing"
)

// 255 literals of 8 bits, literal 255 with 9 bits, end-of-block with 10 bits; the remaining 1/1024 of the code
// space is eight 13-bit codes: all eight assigned (length symbols 257..264) or only the first one
func demoLongLitLens(all bool) []uint8 {
	lens := make([]uint8, 265)
	for i := 0; i < 255; i++ {
		lens[i] = 8
	}
	lens[255], lens[256] = 9, 10
	lens[257] = 13
	if all {
		for s := 258; s <= 264; s++ {
			lens[s] = 13
		}
	}
	return lens
}

func TestDemoStaleLongLiteralTable(t *testing.T) {
	full := demoLongLitLens(true)
	fullCodes := demoCanon(full)
	// first stream: complete code; data "ab", end of block
	w := &hdrBits{}
	demoDynHeader(w, true, full, []uint8{1, 1})
	for _, s := range []int{'a', 'b', 256} {
		w.code(uint64(fullCodes[s].code), fullCodes[s].n)
	}
	for i := 0; i < 4; i++ {
		w.bits(0, 8)
	}
	first := w.out

	// second stream: only the first 13-bit code is assigned; after the literal 'x' comes the bit pattern that was
	// the code of symbol 258 (match length 4) in the first stream, then a distance code and end of block
	part := demoLongLitLens(false)
	partCodes := demoCanon(part)
	w = &hdrBits{}
	demoDynHeader(w, true, part, []uint8{1, 1})
	w.code(uint64(partCodes['x'].code), partCodes['x'].n)
	w.code(uint64(fullCodes[258].code), fullCodes[258].n) // unassigned in this block
	w.bits(0, 1)                                          // distance code 0: distance 1
	w.code(uint64(partCodes[256].code), partCodes[256].n)
	for i := 0; i < 4; i++ {
		w.bits(0, 8)
	}
	second := w.out

	freshOut, freshErr := io.ReadAll(NewReader(bytes.NewReader(second)))

	r := NewReader(bytes.NewReader(first))
	if out, err := io.ReadAll(r); err != nil || string(out) != "ab" {
		t.Fatalf("first stream: %q, %v", out, err)
	}
	if err := r.(Resetter).Reset(bytes.NewReader(second), nil); err != nil {
		t.Fatal(err)
	}
	usedOut, usedErr := io.ReadAll(r)
	if freshErr != usedErr || !bytes.Equal(freshOut, usedOut) {
		t.Fatalf("the same stream read by a new Reader gives (%q, %v) but after Reset of a used Reader (%q, %v)",
			freshOut, freshErr, usedOut, usedErr)
	}
	if freshErr == nil {
		t.Fatalf("a bit pattern that no code of the block matches was decoded: %q", freshOut)
	}
}
