package flate

// Demonstration for C11 (open finding): the Reader asks the source for more input although everything
// up to a sync-flush point has been delivered.

import (
	"bytes"
	stdflate "compress/flate"
	"errors"
	"testing"
)

type stallingSource struct {
	data  []byte
	asked int // number of Read calls made after all data was delivered
}

var errWouldBlock = errors.New("source would block here")

func (s *stallingSource) Read(p []byte) (int, error) {
	if len(s.data) == 0 {
		s.asked++
		return 0, errWouldBlock
	}
	n := copy(p, s.data)
	s.data = s.data[n:]
	return n, nil
}

func TestDemoC11NoDemandBeyondFlushPoint(t *testing.T) {
	var buf bytes.Buffer
	w, _ := stdflate.NewWriter(&buf, 6)
	msg := []byte("a message that is complete at the flush point")
	w.Write(msg)
	w.Flush() // sync flush: everything written so far is decodable from buf
	src := &stallingSource{data: append([]byte{}, buf.Bytes()...)}
	r := NewReader(src)
	got := make([]byte, 0, len(msg))
	p := make([]byte, 16)
	for len(got) < len(msg) {
		n, err := r.Read(p)
		got = append(got, p[:n]...)
		if err != nil {
			t.Fatalf("Read failed with %v after %d of %d bytes although the source had delivered everything up to the flush point", err, len(got), len(msg))
		}
	}
	if src.asked != 0 {
		t.Errorf("the source was asked for more input %d time(s) before the flushed data had been returned", src.asked)
	}
}
