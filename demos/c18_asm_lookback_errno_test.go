package flate

// Demonstration for the C03/C18 defect in decodeHuffman (amd64, acceleration level >= 3): the assembly decoder
// reports an invalid look-back distance as errno -1-distance, which the Go dispatch only recognised for distance 2,
// and on its error paths it counts bytes it never decoded as written, so they are handed out before the error.
// Place in compress/flate and run:  go test -run TestDemoAsmInvalidLookback ./compress/flate

import (
	"bytes"
	stdflate "compress/flate"
	"io"
	"testing"

	"github.com/intel/fastgo/internal/cpu"
)

type demoBitWriter struct {
	out  []byte
	acc  uint64
	nacc uint
}

func (w *demoBitWriter) bits(v uint64, n uint) { // LSB first (header fields, extra bits)
	w.acc |= v << w.nacc
	w.nacc += n
	for w.nacc >= 8 {
		w.out = append(w.out, byte(w.acc))
		w.acc >>= 8
		w.nacc -= 8
	}
}

func (w *demoBitWriter) code(c uint64, n uint) { // Huffman code, MSB first
	for i := int(n) - 1; i >= 0; i-- {
		w.bits((c>>uint(i))&1, 1)
	}
}

func (w *demoBitWriter) flush() []byte {
	if w.nacc > 0 {
		w.out = append(w.out, byte(w.acc))
	}
	return w.out
}

// fixed-Huffman literal
func (w *demoBitWriter) lit(b byte) {
	if b < 144 {
		w.code(0x30+uint64(b), 8)
	} else {
		w.code(0x190+uint64(b-144), 9)
	}
}

func demoStreamMatchBeforeStart(dist uint64) []byte {
	w := &demoBitWriter{}
	w.bits(1, 1) // BFINAL
	w.bits(1, 2) // fixed Huffman
	// one literal so that a distance of 1 would be valid, then a match of length 3 at the given distance code
	w.lit('a')
	w.code(1, 7) // length symbol 257 (length 3)
	// distance symbols 0..3 encode distances 1..4 without extra bits; symbols 30 and 31 are invalid
	w.code(dist-1, 5)
	for i := 0; i < 64; i++ {
		w.lit(byte('b' + i%20))
	}
	w.code(0, 7) // end of block
	return w.flush()
}

func TestDemoAsmInvalidLookback(t *testing.T) {
	saved := cpu.ArchLevel
	defer func() { cpu.ArchLevel = saved }()
	for _, dist := range []uint64{2, 3, 4, 31, 32} {
		stream := demoStreamMatchBeforeStart(dist)
		_, stdErr := io.ReadAll(stdflate.NewReader(bytes.NewReader(stream)))
		if stdErr == nil {
			t.Fatalf("distance %d: the standard library accepts the stream; the demonstration is wrong", dist)
		}
		for _, level := range []int{0, 1, 3, 4} {
			if level > saved {
				continue
			}
			cpu.ArchLevel = level
			got, err := io.ReadAll(NewReader(bytes.NewReader(stream)))
			if err == nil {
				t.Errorf("distance %d, acceleration level %d: stream whose match reaches before the start of the output decoded to %d bytes with a nil error (standard library: %v)", dist, level, len(got), stdErr)
			} else if len(got) > 1 {
				t.Errorf("distance %d, acceleration level %d: %d bytes handed out before the error %v; only the first literal is real data", dist, level, len(got), err)
			}
		}
	}
}
