package flate

// Demonstration for C05: with a *bufio.Reader source of any size, data after the stream stays unread.

import (
	stdflate "compress/flate"
	"bufio"
	"bytes"
	"io"
	"testing"
)

func TestDemoC05SmallBufioSource(t *testing.T) {
	stream := deflateStd5(t, []byte("some compressed payload, some compressed payload"))
	tail := []byte("TRAILING-DATA-AFTER-THE-STREAM")
	for _, size := range []int{16, 64, 512, 4096, 8192} {
		src := bufio.NewReaderSize(bytes.NewReader(append(append([]byte{}, stream...), tail...)), size)
		r := NewReader(src)
		if _, err := io.ReadAll(r); err != nil {
			t.Fatalf("size %d: %v", size, err)
		}
		rest, _ := io.ReadAll(src)
		if !bytes.Equal(rest, tail) {
			t.Errorf("bufio size %d: after EOF the source has %q left, want %q", size, rest, tail)
		}
	}
}

func deflateStd5(t *testing.T, data []byte) []byte {
	var b bytes.Buffer
	w, _ := stdflate.NewWriter(&b, 6)
	w.Write(data)
	w.Close()
	return b.Bytes()
}
