package flate

// Demonstration for a C13/C05 defect in (*decompressor).Reset: when the previous source was a caller's
// *bufio.Reader, the Reader uses that object as its input buffer; Reset with a source that is not a *bufio.Reader
// then called Reset on the CALLER's bufio.Reader, which drops the bytes buffered after the first stream and
// re-points the caller's reader at the new source. A new Reader on the same source never touches the earlier
// bufio.Reader. Two observable effects: (1) a source that reads through the earlier bufio.Reader (the usual way to
// frame the next stream: io.LimitReader(br, n)) makes the bufio.Reader read from itself, so Reset+Read fail (without
// the guard below: unbounded recursion) where a new Reader decodes the stream; (2) with an unrelated source the
// earlier bufio.Reader loses the data that followed the first stream.

import (
	"bufio"
	"bytes"
	stdflate "compress/flate"
	"errors"
	"io"
	"testing"
)

func demoDeflate(t *testing.T, s string) []byte {
	var b bytes.Buffer
	w, _ := stdflate.NewWriter(&b, 6)
	w.Write([]byte(s))
	if err := w.Close(); err != nil {
		t.Fatal(err)
	}
	return b.Bytes()
}

// demoThrough reads n bytes through br and reports an error instead of recursing when br is made to read from it
type demoThrough struct {
	br     *bufio.Reader
	n      int
	inside bool
}

var errDemoSelfRead = errors.New("source was asked to read from itself")

func (s *demoThrough) Read(p []byte) (int, error) {
	if s.inside {
		return 0, errDemoSelfRead
	}
	if s.n == 0 {
		return 0, io.EOF
	}
	if len(p) > s.n {
		p = p[:s.n]
	}
	s.inside = true
	n, err := s.br.Read(p)
	s.inside = false
	s.n -= n
	return n, err
}

func TestDemoResetLeavesCallersBufioAlone(t *testing.T) {
	first, second := demoDeflate(t, "first stream"), demoDeflate(t, "second stream")
	all := append(append([]byte{}, first...), second...)

	// a new Reader on a source that reads through br
	br := bufio.NewReader(bytes.NewReader(all))
	if out, err := io.ReadAll(NewReader(br)); err != nil || string(out) != "first stream" {
		t.Fatalf("first stream: %q, %v", out, err)
	}
	freshOut, freshErr := io.ReadAll(NewReader(&demoThrough{br: br, n: len(second)}))

	// the same after Reset of the Reader that read the first stream from br
	br = bufio.NewReader(bytes.NewReader(all))
	r := NewReader(br)
	if out, err := io.ReadAll(r); err != nil || string(out) != "first stream" {
		t.Fatalf("first stream: %q, %v", out, err)
	}
	var usedOut []byte
	usedErr := r.(Resetter).Reset(&demoThrough{br: br, n: len(second)}, nil)
	if usedErr == nil {
		usedOut, usedErr = io.ReadAll(r)
	}
	if freshErr != usedErr || !bytes.Equal(freshOut, usedOut) {
		t.Errorf("next stream framed through the earlier bufio.Reader: a new Reader gives (%q, %v), the Reader after Reset (%q, %v)", freshOut, freshErr, usedOut, usedErr)
	}

	// an unrelated next source: the earlier bufio.Reader must keep what followed the first stream
	br = bufio.NewReader(bytes.NewReader(all))
	r = NewReader(br)
	if out, err := io.ReadAll(r); err != nil || string(out) != "first stream" {
		t.Fatalf("first stream: %q, %v", out, err)
	}
	if err := r.(Resetter).Reset(bytes.NewBuffer(demoDeflate(t, "third")), nil); err != nil {
		t.Fatal(err)
	}
	if out, err := io.ReadAll(r); err != nil || string(out) != "third" {
		t.Fatalf("stream after Reset: %q, %v", out, err)
	}
	rest, _ := io.ReadAll(br)
	if !bytes.Equal(rest, second) {
		t.Errorf("after Reset to another source the caller's bufio.Reader yields %d bytes (%x), the %d bytes that followed the first stream are gone", len(rest), rest, len(second))
	}
}
