package flate

// Demonstration for an open C03 finding (recorded, not repaired): a dynamic block whose distance code is
// incomplete (three 2-bit codes) is rejected by the standard library and by zlib, but fastgo's setCodes only
// checks over-subscription, so the Reader decodes the block and ends in io.EOF.
// Needs the bit writer of c03_header_repeat_past_end_test.go and the helpers of c03_dist_table_builder_test.go.

import (
	"bytes"
	stdflate "compress/flate"
	"io"
	"testing"
)

func TestDemoIncompleteCodeAccepted(t *testing.T) {
	litLens := make([]uint8, 257)
	litLens['a'], litLens[256] = 1, 1
	lit := demoCanon(litLens)
	w := &hdrBits{}
	demoDynHeader(w, true, litLens, []uint8{2, 2, 2})
	w.code(uint64(lit['a'].code), lit['a'].n)
	w.code(uint64(lit[256].code), lit[256].n)
	for i := 0; i < 4; i++ {
		w.bits(0, 8)
	}
	_, stdErr := io.ReadAll(stdflate.NewReader(bytes.NewReader(w.out)))
	got, err := io.ReadAll(NewReader(bytes.NewReader(w.out)))
	if stdErr != nil && err == nil {
		t.Fatalf("incomplete distance code accepted: fastgo returned %q and io.EOF, the standard library %v", got, stdErr)
	}
}
