package flate

// Demonstration for a C03 defect: a dynamic block header cut short inside the extra bits of a zero-repeat code
// (after the end-of-block position with length 0) leaves the bit count at -8 or below; step() then computes a
// discard size one byte larger than what was peeked, bufio's Discard hits the end of the source and its io.EOF is
// returned as the stream's result: a truncated stream reads as a clean end of data.
// Place in compress/flate and run:  go test -run TestDemoTruncatedHeaderCleanEOF ./compress/flate

import (
	"bytes"
	stdflate "compress/flate"
	"io"
	"testing"
)

func demoTruncatedHeader() []byte {
	w := &hdrBits{} // bit writer of c03_header_repeat_past_end_test.go
	w.bits(1, 1)   // BFINAL
	w.bits(2, 2)   // dynamic Huffman
	w.bits(29, 5)  // HLIT: 286 literal/length codes
	w.bits(0, 5)   // HDIST: 1 distance code
	w.bits(14, 4)  // HCLEN: 18 code length code lengths
	for _, l := range []uint64{2, 0, 1, 0, 0, 0, 0, 0, 0, 0, 0, 0, 0, 0, 0, 0, 0, 2} {
		w.bits(l, 3)
	}
	w.code(0, 1)
	w.bits(127, 7) // 138 zeros
	w.code(0, 1)
	w.bits(108, 7) // 119 zeros: 257 lengths, all zero (no end-of-block code)
	w.code(0, 1)   // another zero-repeat whose 7 extra bits are missing: the input ends here (88 bits)
	return w.out
}

func TestDemoTruncatedHeaderCleanEOF(t *testing.T) {
	stream := demoTruncatedHeader()
	if len(stream) != 11 {
		t.Fatalf("demonstration stream has %d bytes, want 11", len(stream))
	}
	_, stdErr := io.ReadAll(stdflate.NewReader(bytes.NewReader(stream)))
	if stdErr == nil {
		t.Fatalf("the standard library accepts the stream; the demonstration is wrong")
	}
	r := NewReader(bytes.NewReader(stream))
	buf := make([]byte, 16)
	n, err := r.Read(buf)
	if err == io.EOF {
		t.Fatalf("truncated dynamic header read as a clean end of data: Read returned (%d, io.EOF); standard library: %v", n, stdErr)
	}
	if _, ok := err.(CorruptInputError); !ok && err != io.ErrUnexpectedEOF {
		t.Fatalf("unexpected error %v (standard library: %v)", err, stdErr)
	}
}
