package zlib

// Demonstration for a C13 defect in zlib (*reader).Reset: when the reader's inner inflater is the standard
// library's (kept after a stream with a preset dictionary), Reset(src, dict) onto a stream WITHOUT the FDICT flag
// passes dict to that inflater, which preloads it; NewReaderDict(src, dict) ignores the dictionary for such a stream.
// A malformed stream whose back-reference reaches before its own start is then answered with dictionary bytes after
// Reset, but with corrupt input by a new Reader.
// Place in compress/zlib and run:  go test -run TestDemoZlibResetDictWithoutFDICT ./compress/zlib

import (
	"bytes"
	stdzlib "compress/zlib"
	"io"
	"testing"
)

func TestDemoZlibResetDictWithoutFDICT(t *testing.T) {
	dict := []byte("abcdefghijklmnopqrstuvwxyz")
	// first stream: valid, uses the dictionary (FDICT set)
	var first bytes.Buffer
	w, _ := stdzlib.NewWriterLevelDict(&first, 6, dict)
	w.Write([]byte("abcdefghij hello"))
	w.Close()
	// second stream: header without FDICT, then a fixed-Huffman block that starts with a match of length 3 at
	// distance 4 (nothing has been produced yet), then end of block; any Adler-32
	second := []byte{0x78, 0x9c}
	second = append(second, 0x63|0x00)       // placeholder, rewritten below
	second = second[:2]
	bits := uint64(0)
	nb := uint(0)
	put := func(v uint64, n uint) { bits |= v << nb; nb += n }
	code := func(c uint64, n uint) {
		for i := int(n) - 1; i >= 0; i-- {
			put((c>>uint(i))&1, 1)
		}
	}
	put(1, 1)
	put(1, 2)
	code(1, 7) // length symbol 257: length 3
	code(3, 5) // distance symbol 3: distance 4
	code(0, 7) // end of block
	for nb > 0 {
		second = append(second, byte(bits))
		bits >>= 8
		if nb >= 8 {
			nb -= 8
		} else {
			nb = 0
		}
	}
	second = append(second, 0, 0, 0, 1)

	fresh, ferr := NewReaderDict(bytes.NewReader(second), dict)
	var freshOut []byte
	if ferr == nil {
		freshOut, ferr = io.ReadAll(fresh)
	}

	r, err := NewReaderDict(bytes.NewReader(first.Bytes()), dict)
	if err != nil {
		t.Fatal(err)
	}
	if out, err := io.ReadAll(r); err != nil || string(out) != "abcdefghij hello" {
		t.Fatalf("first stream: %q, %v", out, err)
	}
	rerr := r.(Resetter).Reset(bytes.NewReader(second), dict)
	var usedOut []byte
	if rerr == nil {
		usedOut, rerr = io.ReadAll(r)
	}
	if !bytes.Equal(freshOut, usedOut) || (ferr == nil) != (rerr == nil) {
		t.Fatalf("stream without FDICT whose match reaches before its start: a new Reader gives (%q, %v), the Reader after Reset gives (%q, %v)", freshOut, ferr, usedOut, rerr)
	}
}
