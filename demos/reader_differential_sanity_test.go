package flate

import (
	"bufio"
	"bytes"
	stdflate "compress/flate"
	"io"
	"math/rand"
	"testing"
	"testing/iotest"
)

func TestTmpDifferential(t *testing.T) {
	rng := rand.New(rand.NewSource(1))
	for iter := 0; iter < 1500; iter++ {
		n := rng.Intn(200000)
		data := make([]byte, n)
		switch iter % 3 {
		case 0:
			rng.Read(data)
		case 1:
			for i := range data {
				data[i] = byte(rng.Intn(4)) + 'a'
			}
		case 2:
			for i := range data {
				data[i] = byte(i % 37)
			}
		}
		var buf bytes.Buffer
		w, _ := stdflate.NewWriter(&buf, []int{0, 1, 6, 9, -2}[iter%5])
		k := 0
		for k < n {
			c := rng.Intn(70000) + 1
			if k+c > n {
				c = n - k
			}
			w.Write(data[k : k+c])
			if rng.Intn(3) == 0 {
				w.Flush()
			}
			k += c
		}
		w.Close()
		comp := buf.Bytes()
		if rng.Intn(4) == 0 && len(comp) > 2 {
			comp = comp[:rng.Intn(len(comp))]
		}
		want, werr := io.ReadAll(stdflate.NewReader(bytes.NewReader(comp)))
		var src io.Reader = bytes.NewReader(comp)
		switch rng.Intn(5) {
		case 0:
			src = iotest.OneByteReader(src)
		case 1:
			src = iotest.DataErrReader(src)
		case 2:
			src = bufio.NewReaderSize(src, 16+rng.Intn(100))
		case 3:
			src = iotest.HalfReader(src)
		}
		r := NewReader(src)
		var got []byte
		p := make([]byte, 1+rng.Intn(5000))
		var gerr error
		for {
			m, err := r.Read(p)
			got = append(got, p[:m]...)
			if err != nil {
				if err != io.EOF {
					gerr = err
				}
				break
			}
		}
		if (werr == nil && !bytes.Equal(got, want)) || (werr != nil && !bytes.HasPrefix(data, got)) || (gerr == nil) != (werr == nil) {
			t.Fatalf("iter %d: mismatch len got %d want %d gerr=%v werr=%v", iter, len(got), len(want), gerr, werr)
		}
	}
}
