package zlib

// Demonstration for C13: a dictionary passed to Reset is honoured as by NewReaderDict.

import (
	"bytes"
	stdzlib "compress/zlib"
	"io"
	"testing"
)

func TestDemoC13ZlibResetDict(t *testing.T) {
	dict := []byte("hello, world, this is the preset dictionary")
	payload := []byte("hello, world, this is the preset dictionary -- and some payload")
	var plain, withDict bytes.Buffer
	w := stdzlib.NewWriter(&plain)
	w.Write([]byte("first stream without dictionary"))
	w.Close()
	wd, _ := stdzlib.NewWriterLevelDict(&withDict, 6, dict)
	wd.Write(payload)
	wd.Close()

	// reference behaviour: NewReaderDict
	r0, err := NewReaderDict(bytes.NewReader(withDict.Bytes()), dict)
	if err != nil {
		t.Fatal(err)
	}
	want, err := io.ReadAll(r0)
	if err != nil || !bytes.Equal(want, payload) {
		t.Fatalf("NewReaderDict: %q %v", want, err)
	}

	r, err := NewReader(bytes.NewReader(plain.Bytes()))
	if err != nil {
		t.Fatal(err)
	}
	io.ReadAll(r)
	if err := r.(Resetter).Reset(bytes.NewReader(withDict.Bytes()), dict); err != nil {
		t.Fatal(err)
	}
	got, err := io.ReadAll(r)
	if err != nil || !bytes.Equal(got, payload) {
		t.Errorf("after Reset(src, dict): read %q, err=%v; want the payload", got, err)
	}
}
