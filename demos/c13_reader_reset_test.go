package flate

// Demonstration for C13: Reset of a Reader holding undelivered output.

import (
	"bytes"
	stdflate "compress/flate"
	"io"
	"testing"
)

func deflateStd(t *testing.T, data []byte) []byte {
	var b bytes.Buffer
	w, _ := stdflate.NewWriter(&b, 6)
	w.Write(data)
	w.Close()
	return b.Bytes()
}

func TestDemoC13ResetDropsUndelivered(t *testing.T) {
	a := deflateStd(t, bytes.Repeat([]byte("AAAA-old-stream-"), 100))
	b := deflateStd(t, []byte("new stream"))
	r := NewReader(bytes.NewReader(a))
	small := make([]byte, 7)
	if _, err := r.Read(small); err != nil { // leaves decoded but undelivered output behind
		t.Fatal(err)
	}
	if err := r.(Resetter).Reset(bytes.NewReader(b), nil); err != nil {
		t.Fatal(err)
	}
	got, err := io.ReadAll(r)
	if string(got) != "new stream" || err != nil {
		t.Errorf("after Reset read %q (%d bytes), err=%v; want %q", trunc(got), len(got), err, "new stream")
	}
}

func trunc(b []byte) []byte {
	if len(b) > 40 {
		return b[:40]
	}
	return b
}
