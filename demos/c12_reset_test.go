package flate

// Demonstration for C12: Reset after unflushed data must give the bytes of a fresh Writer.

import (
	"bytes"
	"testing"
)

func TestDemoC12ResetDropsPending(t *testing.T) {
	old := bytes.Repeat([]byte("previous stream data, never flushed. "), 4000)
	data := bytes.Repeat([]byte("the new stream "), 50)
	for _, level := range []int{1, 2, -1, -2} {
		var want bytes.Buffer
		fw, _ := NewWriter(&want, level)
		fw.Write(data)
		fw.Close()

		var junk, got bytes.Buffer
		w, _ := NewWriter(&junk, level)
		w.Write(old)
		w.Reset(&got)
		w.Write(data)
		if err := w.Close(); err != nil {
			t.Fatalf("level %d: %v", level, err)
		}
		if !bytes.Equal(got.Bytes(), want.Bytes()) {
			t.Errorf("level %d: output after Reset differs from a fresh Writer (%d vs %d bytes)", level, got.Len(), want.Len())
		}
	}
}
