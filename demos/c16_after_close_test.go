package flate

// Demonstration for C16: calls after Close behave as on compress/flate's Writer.

import (
	"bytes"
	stdflate "compress/flate"
	"testing"
)

func TestDemoC16AfterClose(t *testing.T) {
	for _, level := range []int{1, 2, -1, -2, 0, 5} {
		var ref bytes.Buffer
		rw, _ := stdflate.NewWriter(&ref, level)
		rw.Write([]byte("abc"))
		rw.Close()
		rn := ref.Len()
		_, rwe := rw.Write([]byte("x"))
		rfe := rw.Flush()
		rce := rw.Close()
		if ref.Len() != rn {
			t.Fatalf("stdlib emitted after Close")
		}

		var buf bytes.Buffer
		func() {
			defer func() {
				if r := recover(); r != nil {
					t.Errorf("level %d: panic after Close: %v", level, r)
				}
			}()
			w, _ := NewWriter(&buf, level)
			w.Write([]byte("abc"))
			if err := w.Close(); err != nil {
				t.Fatalf("level %d: Close = %v", level, err)
			}
			n := buf.Len()
			if err := w.Close(); (err != nil) != (rce != nil) {
				t.Errorf("level %d: second Close = %v, stdlib %v", level, err, rce)
			}
			if _, err := w.Write([]byte("x")); (err != nil) != (rwe != nil) {
				t.Errorf("level %d: Write after Close = %v, stdlib %v", level, err, rwe)
			}
			if err := w.Flush(); (err != nil) != (rfe != nil) {
				t.Errorf("level %d: Flush after Close = %v, stdlib %v", level, err, rfe)
			}
			if err := w.Close(); (err != nil) != (rce != nil) {
				t.Errorf("level %d: third Close = %v, stdlib %v", level, err, rce)
			}
			if buf.Len() != n {
				t.Errorf("level %d: %d bytes emitted after Close", level, buf.Len()-n)
			}
			w.Reset(&buf)
			if _, err := w.Write([]byte("x")); err != nil {
				t.Errorf("level %d: Write after Reset = %v", level, err)
			}
			if err := w.Close(); err != nil {
				t.Errorf("level %d: Close after Reset = %v", level, err)
			}
		}()
	}
}
