package gzip

// Demonstration for C07: a container cut short inside the trailer hands out nothing but a prefix of the payload.

import (
	"bytes"
	stdgzip "compress/gzip"
	"io"
	"testing"
)

func TestDemoC07TruncatedTrailerCount(t *testing.T) {
	payload := []byte("payloadpayload")
	var b bytes.Buffer
	w := stdgzip.NewWriter(&b)
	w.Write(payload)
	w.Close()
	for cut := 1; cut <= 7; cut++ {
		src := b.Bytes()[:b.Len()-cut]
		z, err := NewReader(bytes.NewReader(src))
		if err != nil {
			t.Fatal(err)
		}
		var got []byte
		buf := make([]byte, 5) // small reads: the last call delivers no payload at all
		for {
			for i := range buf {
				buf[i] = '#'
			}
			n, err := z.Read(buf)
			got = append(got, buf[:n]...)
			if err != nil {
				if err != io.ErrUnexpectedEOF {
					t.Errorf("cut %d: final error %v, want unexpected EOF", cut, err)
				}
				break
			}
		}
		if !bytes.HasPrefix(payload, got) {
			t.Errorf("cut %d: handed out %q, which is not a prefix of the payload %q", cut, got, payload)
		}
	}
}
