package zlib

// Demonstration for C16: a repeated Close on the zlib Writer returns nil and emits nothing more.

import (
	"bytes"
	"testing"
)

func TestDemoC16ZlibDoubleClose(t *testing.T) {
	for _, level := range []int{-2, -1, 0, 1, 6} {
		var buf bytes.Buffer
		w, _ := NewWriterLevel(&buf, level)
		w.Write([]byte("payload"))
		if err := w.Close(); err != nil {
			t.Fatal(err)
		}
		n := buf.Len()
		if err := w.Close(); err != nil {
			t.Errorf("level %d: second Close = %v, want nil", level, err)
		}
		if buf.Len() != n {
			t.Errorf("level %d: second Close emitted %d more bytes", level, buf.Len()-n)
		}
		w.Reset(&buf)
		buf.Reset()
		w.Write([]byte("again"))
		if err := w.Close(); err != nil {
			t.Errorf("level %d: Close after Reset = %v", level, err)
		}
		if r, err := NewReader(bytes.NewReader(buf.Bytes())); err != nil {
			t.Errorf("level %d: stream after Reset unreadable: %v", level, err)
		} else {
			var out bytes.Buffer
			if _, err := out.ReadFrom(r); err != nil || out.String() != "again" {
				t.Errorf("level %d: after Reset read %q, %v", level, out.String(), err)
			}
		}
	}
}
