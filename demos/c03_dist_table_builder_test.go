package flate

// Demonstrations for two C03 defects in genForDists (the distance decoding table builder), through the public API.
//  1. The short lookup table is not cleared between blocks: a distance code that the current block leaves
//     unassigned (legal degenerate tree with one 1-bit code) decodes through the entry of the previous block and
//     the Reader fabricates data where the standard library reports corrupt input.
//  2. The loop that clears a long-code group covers twice the group: with distance code lengths such as
//     13,15,12,6,0,4,1,10,0,0,13,10,14,13,0,10,15,11,13,9,15,11,0,15,13,0,9 it indexes LongCodeLookup[80]: panic.
// Both inputs were found by the bounded table check (/verif/bounded/disttab_test.go).
// Place in compress/flate (together with c03_header_repeat_past_end_test.go for the bit writer) and run:
//   go test -run TestDemoDistTable ./compress/flate

import (
	"bytes"
	stdflate "compress/flate"
	"io"
	"sort"
	"testing"
)

// demoDynBlock writes one dynamic block: code lengths for literal/length symbols (index = symbol), distance code
// lengths, then the symbols given as (code value, length) pairs already in canonical MSB-first form via emit.
type demoCode struct{ code, n uint }

func demoCanon(lens []uint8) []demoCode {
	type sl struct{ s int; l uint8 }
	var xs []sl
	for s, l := range lens {
		if l > 0 {
			xs = append(xs, sl{s, l})
		}
	}
	sort.Slice(xs, func(i, j int) bool { return xs[i].l < xs[j].l || (xs[i].l == xs[j].l && xs[i].s < xs[j].s) })
	out := make([]demoCode, len(lens))
	code, prev := uint(0), uint8(0)
	for i, x := range xs {
		if i > 0 {
			code = (code + 1) << (x.l - prev)
		} else {
			code = 0
		}
		prev = x.l
		out[x.s] = demoCode{code, uint(x.l)}
	}
	return out
}

func demoDynHeader(w *hdrBits, final bool, litLens []uint8, distLens []uint8) {
	if final {
		w.bits(1, 1)
	} else {
		w.bits(0, 1)
	}
	w.bits(2, 2)
	w.bits(uint64(len(litLens)-257), 5)
	w.bits(uint64(len(distLens)-1), 5)
	w.bits(15, 4) // HCLEN: all 19 code length code lengths follow
	// code length code: symbols 0..15 with 4 bits each (complete), 16..18 unused
	for _, s := range []int{16, 17, 18, 0, 8, 7, 9, 6, 10, 5, 11, 4, 12, 3, 13, 2, 14, 1, 15} {
		if s < 16 {
			w.bits(4, 3)
		} else {
			w.bits(0, 3)
		}
	}
	for _, l := range litLens {
		w.code(uint64(l), 4)
	}
	for _, l := range distLens {
		w.code(uint64(l), 4)
	}
}

func TestDemoDistTableStaleEntries(t *testing.T) {
	litLens := make([]uint8, 258)
	litLens['a'], litLens['b'], litLens[256], litLens[257] = 2, 2, 2, 2
	lit := demoCanon(litLens)
	w := &hdrBits{}
	// block 1: two distance codes of one bit each (complete); data "abab"
	demoDynHeader(w, false, litLens, []uint8{1, 1})
	for _, s := range []int{'a', 'b', 'a', 'b', 256} {
		w.code(uint64(lit[s].code), lit[s].n)
	}
	// block 2: one distance code of one bit (code 0); the match uses the unassigned code 1
	demoDynHeader(w, true, litLens, []uint8{1})
	w.code(uint64(lit['a'].code), lit['a'].n)
	w.code(uint64(lit[257].code), lit[257].n) // length 3
	w.bits(1, 1)                              // distance code "1": not assigned in this block
	w.code(uint64(lit[256].code), lit[256].n)
	for i := 0; i < 4; i++ {
		w.bits(0, 8)
	}
	stream := w.out
	stdOut, stdErr := io.ReadAll(stdflate.NewReader(bytes.NewReader(stream)))
	if stdErr == nil {
		t.Fatalf("the standard library accepts the stream (%q); the demonstration is wrong", stdOut)
	}
	got, err := io.ReadAll(NewReader(bytes.NewReader(stream)))
	if err == nil {
		t.Fatalf("a distance code that the block leaves unassigned was decoded through the previous block's table: got %q with a nil error; standard library: %q then %v", got, stdOut, stdErr)
	}
	if !bytes.HasPrefix(stdOut, got) && !bytes.HasPrefix(got, stdOut) {
		t.Fatalf("data before the error differs: got %q, standard library %q", got, stdOut)
	}
	if len(got) > len(stdOut)+1 {
		t.Fatalf("fabricated data before the error: got %q, standard library %q then %v", got, stdOut, stdErr)
	}
}

func TestDemoDistTableLongGroupPanic(t *testing.T) {
	litLens := make([]uint8, 257)
	litLens['a'], litLens[256] = 1, 1
	lit := demoCanon(litLens)
	distLens := []uint8{13, 15, 12, 6, 0, 4, 1, 10, 0, 0, 13, 10, 14, 13, 0, 10, 15, 11, 13, 9, 15, 11, 0, 15, 13, 0, 9}
	w := &hdrBits{}
	demoDynHeader(w, true, litLens, distLens)
	w.code(uint64(lit['a'].code), lit['a'].n)
	w.code(uint64(lit[256].code), lit[256].n)
	for i := 0; i < 4; i++ {
		w.bits(0, 8)
	}
	stream := w.out
	_, stdErr := io.ReadAll(stdflate.NewReader(bytes.NewReader(stream)))
	defer func() {
		if r := recover(); r != nil {
			t.Fatalf("fastgo Reader panicked while building the distance table (standard library: %v): %v", stdErr, r)
		}
	}()
	_, _ = io.ReadAll(NewReader(bytes.NewReader(stream)))
}
