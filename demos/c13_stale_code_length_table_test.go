package flate

// Demonstration for a C03/C13 defect in GenerateForHeader: the decoding table of the code length code is not
// cleared before it is filled, so bit patterns that the current block's code length code leaves unassigned decode
// through entries of an earlier block - or of an earlier stream, because Reset keeps the table. The same malformed
// stream is then parsed differently by a new Reader and by a Reader that was used before (here: both report corrupt input, but
// at different offsets, because the used Reader accepts the whole header through stale entries).
// Needs the bit writer of c03_header_repeat_past_end_test.go and demoCanon of c03_dist_table_builder_test.go.

import (
	"bytes"
	stdflate "compress/flate"
	"io"
	"testing"
)

var demoClOrder = []int{16, 17, 18, 0, 8, 7, 9, 6, 10, 5, 11, 4, 12, 3, 13, 2, 14, 1, 15}

// the second stream: its code length code has the single code "0" for symbol 1; the code lengths 9 and 10 are
// written with the 4-bit codes 1001 and 1010 of the FIRST stream's code length code (unassigned here)
func demoStaleClStream() []byte {
	w := &hdrBits{}
	w.bits(1, 1)
	w.bits(2, 2)
	w.bits(0, 5)  // 257 literal/length codes
	w.bits(0, 5)  // 1 distance code
	w.bits(15, 4) // 19 code length code lengths
	for _, s := range demoClOrder {
		if s == 1 {
			w.bits(1, 3)
		} else {
			w.bits(0, 3)
		}
	}
	// literal/length lengths: symbol 0 gets length 1 (code "0" -> symbol 1), the other 256 symbols get 9
	// (a complete code); the distance code gets length 1
	lens := make([]uint8, 257)
	lens[0] = 1
	for i := 1; i < 257; i++ {
		lens[i] = 9
	}
	for _, l := range lens {
		switch l {
		case 1:
			w.code(0, 1)
		case 9:
			w.code(9, 4) // 1001: symbol 9 of the first stream's code length code
		}
	}
	w.code(0, 1) // distance code 0: length 1
	lit := demoCanon(lens)
	w.code(uint64(lit[0].code), lit[0].n)
	w.code(uint64(lit[256].code), lit[256].n)
	for i := 0; i < 4; i++ {
		w.bits(0, 8)
	}
	return w.out
}

func TestDemoStaleCodeLengthTable(t *testing.T) {
	// first stream: an ordinary dynamic block whose code length code gives 4 bits to each of the symbols 0..15
	litLens := make([]uint8, 257)
	litLens['a'], litLens[256] = 1, 1
	lit := demoCanon(litLens)
	w := &hdrBits{}
	demoDynHeader(w, true, litLens, []uint8{1})
	w.code(uint64(lit['a'].code), lit['a'].n)
	w.code(uint64(lit[256].code), lit[256].n)
	for i := 0; i < 4; i++ {
		w.bits(0, 8)
	}
	first := w.out
	second := demoStaleClStream()

	_, stdErr := io.ReadAll(stdflate.NewReader(bytes.NewReader(second)))
	if stdErr == nil {
		t.Fatalf("the standard library accepts the second stream; the demonstration is wrong")
	}
	freshOut, freshErr := io.ReadAll(NewReader(bytes.NewReader(second)))

	r := NewReader(bytes.NewReader(first))
	if out, err := io.ReadAll(r); err != nil || string(out) != "a" {
		t.Fatalf("first stream: %q, %v", out, err)
	}
	if err := r.(Resetter).Reset(bytes.NewReader(second), nil); err != nil {
		t.Fatal(err)
	}
	usedOut, usedErr := io.ReadAll(r)
	// a new Reader stops at the first code length whose code is unassigned (header, offset 9); the used Reader
	// reads all 258 code lengths through the stale entries and only fails later
	if freshErr != usedErr || !bytes.Equal(freshOut, usedOut) {
		t.Fatalf("the same stream read by a new Reader gives (%q, %v) but after Reset of a used Reader (%q, %v); standard library: %v",
			freshOut, freshErr, usedOut, usedErr, stdErr)
	}
}
