package flate

// Demonstration for C10: after Flush the bytes emitted so far decode to all data written so far.

import (
	"bytes"
	stdflate "compress/flate"
	"io"
	"testing"
)

func TestDemoC10HuffmanOnlyFlush(t *testing.T) {
	for _, level := range []int{-2, 1, 2} {
		for _, first := range []string{"", "a", "hello, world", "abcabcabcabcabcabcabcabc 0123456789"} {
			var buf bytes.Buffer
			w, _ := NewWriter(&buf, level)
			w.Write([]byte(first))
			if err := w.Flush(); err != nil {
				t.Fatal(err)
			}
			// everything written so far must decode from what has been emitted so far
			r := stdflate.NewReader(bytes.NewReader(buf.Bytes()))
			got, err := io.ReadAll(r)
			if string(got) != first || err != io.ErrUnexpectedEOF {
				t.Errorf("level %d first=%q: after Flush decoded %q, err=%v (want the data and unexpected EOF)", level, first, got, err)
			}
			w.Write([]byte(" and more"))
			w.Flush()
			w.Write([]byte(" and the end"))
			w.Close()
			r = stdflate.NewReader(bytes.NewReader(buf.Bytes()))
			got, err = io.ReadAll(r)
			if want := first + " and more and the end"; string(got) != want || err != nil {
				t.Errorf("level %d first=%q: whole stream decoded %q, err=%v", level, first, got, err)
			}
		}
	}
}
